"""C11: minimal_m_separator / is_minimal_m_separator.

Oracle: the Lean brute-force deciders `C11.existsSepDec`, `C11.allMinSeps`, `C11.minSepDec` (all subsets of
R, m-separation decided by the C01 model `MG.mSeparated`, which is proved equal to the path-level
definition).  The returned separator is a *witness*: it is validated (it must be one of the I-minimal
separators), not compared with the model's witness.  `is_minimal_m_separator` is a determined boolean and
is compared exactly.  The Lean model `C11.minimalMSep` / `C11.isMinimalMSep` is compared as well
(correspondence), which ties the theorems about the model to the code."""
import itertools
import random

from . import common as C
from .shrink import shrink_case
from .c12 import in_domain, STATES7, STATES5, kv

PID = "C11"
FAMS = C.Labels.FAMILIES


def br(s):
    return "{" + C.fmt_set(s) + "}"


def adjacent(g, x, y):
    return any(set(e) == {x, y} for k in "DBU" for e in g[k])


def in_quantifier(case):
    g = case["g"]
    V = set(C.g_nodes(g))
    x, y = case["x"], case["y"]
    if x == y or x not in V or y not in V or not in_domain(g):
        return False
    I, R = set(case["I"]), set(case["R"])
    if not (I <= R and R <= V - {x, y}):
        return False
    return all(set(Z) <= V for Z in case.get("Zs", [])) and set(case.get("Z", [])) <= V


# ----------------------------------------------------------------------------- implementation
def impl(case):
    """{'min': 'none' | '{..}' | 'err:<Class>', 'ismin': {'{..}': 'T'|'F'|'err:<Class>'}, 'mutated': bool}"""
    import pywhy_graphs.networkx as pywhy_nx
    g = case["g"]
    lab = C.Labels(case.get("fam", "int"))
    try:
        G = C.build_mixed(g, lab, layers=tuple(case.get("layers", "DBU")))
    except Exception as e:
        return {"err": "build:" + type(e).__name__}
    V = set(C.g_nodes(g))
    x, y = lab.fresh(case["x"]), lab.fresh(case["y"])
    I = {lab(v) for v in case["I"]}
    R = {lab(v) for v in case["R"]}
    dflt = bool(case.get("defaults"))
    kw = {}
    if not (dflt and not case["I"]):
        kw["i"] = I
    if not (dflt and set(case["R"]) == V - {case["x"], case["y"]}):
        kw["r"] = R
    if C.warm_decide(case, 4):
        # query, edit the same object in place, query again (see common.warmup)
        C.warmup(G, lambda: pywhy_nx.minimal_m_separator(G, x, y), layers=("directed", "bidirected", "undirected"))
    before = C.snapshot(G)
    out = {"ismin": {}}
    if case.get("call", "min") != "ismin":
        try:
            r = pywhy_nx.minimal_m_separator(G, x, y, **{k: (frozenset(v) if lab.family == "nested" else set(v)) for k, v in kw.items()})
            if r is None:
                out["min"] = "none"
            else:
                try:
                    out["min"] = br(lab.inv(v) for v in r)
                except Exception:
                    out["min"] = "bad:" + repr(r)[:60]
        except Exception as e:
            out["min"] = "err:" + type(e).__name__
    Zs = [case["Z"]] if case.get("call") == "ismin" else ([] if case.get("call") == "min" else case.get("Zs", []))
    for Z in Zs:
        try:
            r = pywhy_nx.is_minimal_m_separator(G, x, y, {lab(v) for v in Z}, **{k: set(v) for k, v in kw.items()})
            out["ismin"][br(Z)] = "T" if r is True else ("F" if r is False else "bad:" + repr(r)[:40])
        except Exception as e:
            out["ismin"][br(Z)] = "err:" + type(e).__name__
    out["mutated"] = before != C.snapshot(G)
    return out


# ----------------------------------------------------------------------------- Lean requests
def q(case):
    return "%s x=%d y=%d I=%s R=%s" % (C.g_line(case["g"]), case["x"], case["y"], C.fmt_set(case["I"]),
                                      C.fmt_set(case["R"]))


def min_line(case):
    return "minsep " + q(case)


def ismin_line(case, Z):
    return "ismin %s Z=%s" % (q(case), C.fmt_set(Z))


def witness_of(got):
    r = (got or {}).get("min", "")
    if r.startswith("{"):
        return [int(t) for t in r.strip("{}").split(",") if t]
    return None


def case_lines(case, got=None):
    """requests for one case; when the implementation returned a set, a second request validates that very
    set with the proved decider C11.minSepDec (theorem C11.minSepDec_iff)"""
    ls = []
    if case.get("call", "min") != "ismin":
        ls.append(min_line(case))
        w = witness_of(got)
        if w is not None:
            ls.append(ismin_line(case, w))
    Zs = [case["Z"]] if case.get("call") == "ismin" else ([] if case.get("call") == "min" else case.get("Zs", []))
    ls += [ismin_line(case, Z) for Z in Zs]
    return ls


# ----------------------------------------------------------------------------- verdicts
def verdict(case, got, answers):
    """list of (kind, call, detail); kind 'corr:*' = differs from the model only"""
    res = []
    if "err" in got:
        return [("error", {"call": "build"}, got["err"])]
    k = 0
    if "min" in got:
        m = kv(answers[0])
        k = 1
        mins = [s for s in m["mins"].split(";") if s]
        r = got["min"]
        wit_ok = None
        if witness_of(got) is not None:
            wit_ok = kv(answers[1])["spec"] == "T"
            k = 2
        if m["ans"].startswith("err"):
            pass                                   # outside the quantifier (never generated)
        elif r.startswith("err") or r.startswith("bad"):
            res.append(("error", {"call": "min"}, "minimal_m_separator raised/returned %s; separator exists: %s, "
                        "I-minimal separators: %s" % (r, m["exists"], m["mins"] or "-")))
        elif r == "none":
            if m["exists"] == "T":
                res.append(("incomplete", {"call": "min"}, "returned None although separators with I<=Z<=R exist, "
                            "e.g. the I-minimal ones %s" % m["mins"]))
        else:
            if not wit_ok:
                why = "no separator with I<=Z<=R exists" if m["exists"] == "F" else "I-minimal separators are " + m["mins"]
                res.append(("unsound" if m["exists"] == "F" else "not-minimal", {"call": "min"},
                            "returned %s which is not an I-minimal separator (%s)" % (r, why)))
        # the separator itself is a witness: it was validated above and is NOT compared with the model's
        # (agreement is only counted in the evidence: min:witness-equals-model)
    for Zs, a in zip(list(got["ismin"]), answers[k:]):
        m = kv(a)
        r = got["ismin"][Zs]
        Z = [int(t) for t in Zs.strip("{}").split(",") if t]
        call = {"call": "ismin", "Z": Z}
        if m["model"] not in ("T", "F", "err:nx"):
            continue
        if m["spec"] == "T":
            if r != "T":
                res.append(("ismin-false-negative", call, "is_minimal_m_separator(Z=%s) = %s but Z is an I-minimal "
                            "separator" % (Zs, r)))
        else:
            if r == "T":
                res.append(("ismin-false-positive", call, "is_minimal_m_separator(Z=%s) = True but Z is not an "
                            "I-minimal separator" % Zs))
            elif r not in ("F", "err:NetworkXError"):
                res.append(("error", call, "is_minimal_m_separator(Z=%s) raised %s" % (Zs, r)))
            elif (r == "err:NetworkXError") != (m["model"] == "err:nx"):
                # raising vs returning False for I not<= Z / Z not<= R is not determined by the property
                res.append(("note:raise-differs-from-model", call, "implementation %s model %s" % (r, m["model"])))
    if got.get("mutated"):
        res.append(("mutation", {"call": case.get("call", "min")}, "the call changed G"))
    return res


def fails(case, drv, kinds=None):
    if not in_quantifier(case):
        return False
    got = impl(case)
    ans = [drv.ask(l) for l in case_lines(case, got)]
    v = [r for r in verdict(case, got, ans) if not r[0].startswith(("corr", "note"))]
    if kinds:
        v = [r for r in v if r[0] in kinds]
    return bool(v)


# ----------------------------------------------------------------------------- generators
def planted(rng, n):
    """collider a -> c <- b with non-adjacent parents; a descendant chain below c; random extra edges that
    respect a topological order; the caller puts c or a descendant into I so that c is anterior"""
    order = list(range(n))
    rng.shuffle(order)
    a, b, c = order[0], order[1], order[2]
    g = C.g_new(n, D=[[a, c], [b, c]])
    below = order[3:]
    prev = c
    for d in below[:rng.choice((0, 1, 2))]:
        g["D"].append([prev, d])
        prev = d
    pos = {v: i for i, v in enumerate(order)}
    for u, v in C.all_pairs(n):
        if {u, v} == {a, b} or rng.random() > 0.3:
            continue
        if any(set(e) == {u, v} for e in g["D"]):
            continue
        s, t = (u, v) if pos[u] < pos[v] else (v, u)
        if rng.random() < 0.7:
            g["D"].append([s, t])
        else:
            g["B"].append([u, v])
    return g, a, b, c


def rand_case(rng, i):
    n = rng.choice((5, 5, 6, 6))
    kind = rng.random()
    x = y = None
    if kind < 0.4:
        g, x, y, c = planted(rng, n)
        if rng.random() < 0.3:
            x, y = rng.sample(range(n), 2)
    elif kind < 0.7:
        g = C.rand_dag_order_graph(rng, n, [("D>",), ("D>",), ("B",), ("D>", "B")], density=rng.choice((0.3, 0.45)))
    elif kind < 0.85:
        g = C.rand_dag_order_graph(rng, n, [("D>",)], density=0.45)
    else:
        g = C.rand_dag_order_graph(rng, n, [("D>",), ("B",), ("U",), ("U",)], density=0.45)
        heads = set(b for a, b in g["D"]) | set(e for p in g["B"] for e in p)
        g["U"] = [e for e in g["U"] if e[0] not in heads and e[1] not in heads]
    if x is None:
        x, y = rng.sample(range(n), 2)
    rest = [v for v in range(n) if v not in (x, y)]
    mode = rng.random()
    if mode < 0.35:
        R = list(rest)
    else:
        R = [v for v in rest if rng.random() < 0.7]
    I = [v for v in R if rng.random() < rng.choice((0.0, 0.25, 0.5))]
    case = {"g": C.shuffled_graph(rng, g) if i % 3 == 0 else g, "x": x, "y": y, "I": sorted(I), "R": sorted(R),
            "src": "rnd", "fam": FAMS[i % len(FAMS)]}
    if i % 5 == 1:
        present = "".join(k for k in "DBU" if g[k] or rng.random() < 0.5)
        if present:
            case["layers"] = present
    if i % 4 == 2:
        case["defaults"] = True
    return case


def exhaustive_cases(n, graphs, pairs, src):
    for g in graphs:
        for x, y in pairs:
            rest = [v for v in range(n) if v not in (x, y)]
            allZ = list(C.subsets(rest))
            for R in C.subsets(rest):
                for I in C.subsets(R):
                    yield {"g": g, "x": x, "y": y, "I": I, "R": R, "Zs": allZ, "src": src}


def gen_cases(ctx):
    tier, rng = ctx["tier"], ctx["rng"]
    for c in C.load_corpus(PID):
        c = dict(c)
        c["src"] = "corpus"
        yield c
    k = 0
    for n in (2, 3):
        graphs = [g for g in C.enum_graphs(n, STATES7) if in_domain(g)]
        pairs = [(a, b) for a in range(n) for b in range(n) if a != b]
        for c in exhaustive_cases(n, graphs, pairs, "exh%d" % n):
            k += 1
            c["fam"] = FAMS[k % len(FAMS)]
            if k % 7 == 0:
                c["defaults"] = True
            yield c
    # n = 4: all labelled graphs with the pair (0,1) cover every (graph, pair) up to renaming
    if tier == "thorough":
        graphs = [g for g in C.enum_graphs(4, STATES7) if in_domain(g)]
    else:
        graphs = [g for g in C.enum_graphs(4, STATES5) if in_domain(g)]
        graphs = [g for j, g in enumerate(graphs) if j % 3 == ctx["seed"] % 3]
    for c in exhaustive_cases(4, graphs, [(0, 1)], "exh4"):
        k += 1
        c["fam"] = FAMS[k % len(FAMS)]
        if k % 11 == 0:
            c["x"], c["y"] = 1, 0
        yield c
    N = 2500 if tier == "quick" else 40000
    for i in range(N):
        yield rand_case(rng, i)


def add_candidates(ctx, cases):
    """random cases get their candidate sets Z for is_minimal_m_separator: the true minimal separators (from
    the Lean decider), one-element extensions/reductions of them, and random subsets of R"""
    rng = random.Random(ctx["seed"] + 1)
    todo = [c for c in cases if "Zs" not in c and c.get("call") is None]
    ans = C.lean_batch([min_line(c) for c in todo])
    for c, a in zip(todo, ans):
        mins = [[int(t) for t in s.strip("{}").split(",") if t] for s in kv(a)["mins"].split(";") if s]
        V = [v for v in C.g_nodes(c["g"]) if v not in (c["x"], c["y"])]
        Zs = [sorted(m) for m in mins[:3]]
        for m in mins[:2]:
            extra = [v for v in V if v not in m]
            if extra:
                Zs.append(sorted(m + [rng.choice(extra)]))
            if m:
                Zs.append(sorted(set(m) - {rng.choice(m)}))
        for _ in range(3):
            Zs.append(sorted(v for v in c["R"] if rng.random() < 0.5))
        Zs.append(sorted(c["I"]))
        uniq = []
        for Z in Zs:
            if Z not in uniq:
                uniq.append(Z)
        c["Zs"] = uniq


# ----------------------------------------------------------------------------- main
def run(ctx):
    ev, out = ctx["ev"], ctx["out"]
    ev.rule = ("exhaustive: every graph of the C01 domain on 2-3 nodes (pair states none,->,<-,<->,->+<->,<-+<->,--) x "
               "every ordered pair (x,y), adjacent or not, x every I<=R<=V-{x,y} x every candidate Z<=V-{x,y}; n=4: pair "
               "(0,1) (all labelled graphs => every pair up to renaming), quick: a third of the graphs over "
               "{none,->,<-,<->,--}, thorough: all graphs over the seven states; random n in 5..6: planted colliders with "
               "non-adjacent parents whose collider is anterior to I, ADMGs, DAGs, graphs with undirected parts, "
               "candidates Z = true minimal separators, their one-element extensions/reductions, random subsets of R; "
               "labels int / multi-character str / tuple, node arguments passed as fresh equal objects, default i/r. "
               "non-trivial = x,y non-adjacent and (no separator exists or some I-minimal separator is larger than I)")
    ev.assumptions = ["inputs inside the quantifier: C01 domain, x != y, I <= R <= V - {x,y}",
                      "both sentences are proved for the model (C11.minimalMSep_spec, C11.isMinimalMSep_iff); model = code is "
                      "what this run samples: the implementation is compared with the proved Lean deciders on every generated input",
                      "label->index bijection and canonicalisation in harness/common.py"]
    cases = list(gen_cases(ctx))
    cases = [c for c in cases if in_quantifier(c)]
    add_candidates(ctx, cases)
    gots = C.pmap(impl, cases, chunksize=64)
    lines, spans = [], []
    for c, got in zip(cases, gots):
        ls = case_lines(c, got)
        spans.append((len(lines), len(ls)))
        lines += ls
    ans = C.lean_batch(lines)
    bad, corr = [], []
    for case, got, (s, l) in zip(cases, gots, spans):
        a = ans[s:s + l]
        ev.count("src:" + case["src"])
        ev.count("fam:" + case.get("fam", "int"))
        nontriv = False
        if case.get("call", "min") != "ismin":
            m = kv(a[0])
            mins = [t for t in m["mins"].split(";") if t]
            adj = adjacent(case["g"], case["x"], case["y"])
            nontriv = (not adj) and (m["exists"] == "F" or any(t != br(case["I"]) for t in mins))
            ev.count("min:exists=" + m["exists"])
            ev.count("pair:adjacent" if adj else "pair:non-adjacent")
            if got.get("min") == m["ans"]:
                ev.count("min:witness-equals-model")
        ev.count("ismin:calls", len(got.get("ismin", {})))
        ev.count("ismin:true", sum(1 for v in got.get("ismin", {}).values() if v == "T"))
        ev.case({k: v for k, v in case.items() if k != "Zs"}, nontrivial=nontriv, sample_every=5000)
        for kind, call, detail in verdict(case, got, a):
            if kind.startswith("note"):
                ev.count(kind)
                continue
            (corr if kind.startswith("corr") else bad).append((case, kind, call, detail))
    ev.traces = sum(1 + len(g.get("ismin", {})) for g in gots)
    ev.extra["exhaustive_part"] = "graphs<=3 nodes: everything; 4 nodes: pair (0,1), all I<=R, all Z (quick: a third of the 5-state graphs)"
    if bad or corr:
        report(ctx, bad, corr)


def single(case, call):
    c = {k: v for k, v in case.items() if k not in ("Zs", "Z", "call")}
    c.update(call)
    return c


def report(ctx, bad, corr):
    out = ctx["out"]
    drv = C.Driver()
    try:
        seen = set()
        for case, kind, call, detail in bad:
            if kind in seen:
                continue
            seen.add(kind)
            c = single(case, call)
            small = shrink_case(c, lambda cc: fails(cc, drv, kinds=(kind,)), optional_sets=("Z", "I", "R"))
            got = impl(small)
            ls = case_lines(small, got)
            out.violation(small, {"kind": kind, "detail": detail, "impl": got, "lean_requests": ls,
                                  "lean": [drv.ask(l) for l in ls], "original_case": single(case, call),
                                  "disagreements_total": sum(1 for b in bad if b[1] == kind)})
        if not bad:
            case, kind, call, detail = corr[0]
            out.corr(single(case, call), {"kind": kind, "detail": detail, "count": len(corr)})
    finally:
        drv.close()


def replay(ctx, payload):
    case = payload["case"]
    drv = C.Driver()
    got = impl(case)
    ls = case_lines(case, got)
    ans = [drv.ask(l) for l in ls]
    drv.close()
    print("implementation:", got)
    for l, a in zip(ls, ans):
        print("lean:", l, "->", a)
    v = [r for r in verdict(case, got, ans) if not r[0].startswith(("corr", "note"))]
    for r in v:
        print("disagreement:", r[0], r[2])
    print("REPRODUCED" if v else "NOT-REPRODUCED")
    return 1 if v else 0


# ----------------------------------------------------------------------------- C15 adapter
_DRV = None


def _drv():
    global _DRV
    if _DRV is None:
        _DRV = C.Driver()
    return _DRV


def c15_cases(rng, k):
    cases = []
    i = 0
    while len(cases) < k:
        c = rand_case(rng, 3 * i + 1)   # never pre-shuffled, no missing layers
        i += 1
        c.pop("fam", None)
        c.pop("layers", None)
        c.pop("src", None)
        if not in_quantifier(c):
            continue
        if len(cases) % 2 == 0:
            c["call"] = "min"
        else:
            c["call"] = "ismin"
            c["Z"] = sorted(set(c["I"]) | set(v for v in c["R"] if rng.random() < 0.4))
        cases.append(c)
    return cases


def c15_eval(case, fam, order_seed):
    c = dict(case)
    c["g"] = C.shuffled_graph(random.Random(order_seed), case["g"])
    c["fam"] = fam
    got = impl(c)
    if "err" in got:
        return "err:" + got["err"]
    if case["call"] == "ismin":
        return list(got["ismin"].values())[0]
    r = got["min"]
    if r == "none" or r.startswith("err"):
        return r
    if r.startswith("bad"):
        return "found:INVALID:not a set of nodes"
    m = kv(_drv().ask(ismin_line(case, witness_of(got))))
    return "found:valid" if m["spec"] == "T" else "found:INVALID:not an I-minimal separator"


def c15_expected(cases):
    ans = C.lean_batch([case_lines(c)[0] for c in cases])
    out = []
    for c, a in zip(cases, ans):
        m = kv(a)
        if c["call"] == "ismin":
            out.append("err:NetworkXError" if m["model"] == "err:nx" else m["spec"])
        else:
            out.append("found:valid" if m["exists"] == "T" else "none")
    return out
