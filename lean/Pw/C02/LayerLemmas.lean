import Pw.C02.Obs

/-! # C02: lemmas about one networkx layer (`Layer`) -/
namespace C02

theorem same_refl (k : Kind) (e : Nat × Nat) : same k e e = true := by simp [same]
theorem same_symm (k : Kind) (e f : Nat × Nat) : same k e f = same k f e := by
  obtain ⟨a, b⟩ := e; obtain ⟨c, d⟩ := f
  cases k <;> simp [same] <;> grind
theorem same_trans {k : Kind} {e f g : Nat × Nat} (h1 : same k e f = true) (h2 : same k f g = true) :
    same k e g = true := by
  obtain ⟨a, b⟩ := e; obtain ⟨c, d⟩ := f; obtain ⟨x, y⟩ := g
  cases k <;> simp [same] at * <;> grind
theorem same_eq_sameP (k : Kind) (x y u v : Nat) : same k (x, y) (u, v) = sameP k x y u v := by
  cases k <;> simp [same, sameP]
/-- `same` only depends on the class of its right argument -/
theorem same_congr_right {k : Kind} {e f g : Nat × Nat} (h : same k f g = true) : same k e f = same k e g := by
  cases h1 : same k e f <;> cases h2 : same k e g <;> try rfl
  · have := same_trans h2 (by rw [same_symm]; exact h); simp_all
  · have := same_trans h1 h; simp_all

theorem same_ends {k : Kind} {e : Nat × Nat} {x y : Nat} (h : same k e (x, y) = true) :
    (e.1 = x ∧ e.2 = y) ∨ (e.1 = y ∧ e.2 = x) := by
  cases k <;> simp [same] at h <;> grind

namespace Layer

/-- well-formed layer: node list duplicate-free, endpoints are nodes, stored keys pairwise different edges -/
structure WF (L : Layer) : Prop where
  nodup : L.nodes.Nodup
  ends : ∀ e ∈ L.edges, e.1.1 ∈ L.nodes ∧ e.1.2 ∈ L.nodes
  keys : L.edges.Pairwise fun e f => same L.kind e.1 f.1 = false

theorem has_iff {L : Layer} {u v : Nat} : L.has u v = true ↔ ∃ e ∈ L.edges, same L.kind e.1 (u, v) = true := by
  simp [has]

/-! ### addNode -/
@[simp] theorem kind_addNode (L : Layer) (v : Nat) : (L.addNode v).kind = L.kind := by
  unfold addNode; split <;> rfl
@[simp] theorem edges_addNode (L : Layer) (v : Nat) : (L.addNode v).edges = L.edges := by
  unfold addNode; split <;> rfl
@[simp] theorem has_addNode (L : Layer) (w u v : Nat) : (L.addNode w).has u v = L.has u v := by
  simp [has]
theorem mem_addNode {L : Layer} {v x : Nat} : x ∈ (L.addNode v).nodes ↔ x ∈ L.nodes ∨ x = v := by
  unfold addNode; split <;> simp <;> grind
theorem WF.addNode {L : Layer} (h : L.WF) (v : Nat) : (L.addNode v).WF := by
  refine ⟨?_, ?_, ?_⟩
  · unfold Layer.addNode; split
    · exact h.nodup
    · simp only [List.nodup_append, List.nodup_cons, List.not_mem_nil, not_false_eq_true, List.nodup_nil,
        and_self, List.mem_cons, or_false, true_and]
      exact ⟨h.nodup, by grind⟩
  · intro e he; simp only [edges_addNode] at he
    have := h.ends e he
    simp only [mem_addNode]; grind
  · simpa using h.keys

@[simp] theorem kind_addNodes (L : Layer) (vs : List Nat) : (L.addNodes vs).kind = L.kind := by
  unfold addNodes; induction vs generalizing L <;> simp_all
@[simp] theorem edges_addNodes (L : Layer) (vs : List Nat) : (L.addNodes vs).edges = L.edges := by
  unfold addNodes; induction vs generalizing L <;> simp_all
@[simp] theorem has_addNodes (L : Layer) (vs : List Nat) (u v : Nat) : (L.addNodes vs).has u v = L.has u v := by
  simp [has]
theorem mem_addNodes {L : Layer} {vs : List Nat} {x : Nat} : x ∈ (L.addNodes vs).nodes ↔ x ∈ L.nodes ∨ x ∈ vs := by
  unfold addNodes
  induction vs generalizing L with
  | nil => simp
  | cons v vs ih => simp only [List.foldl_cons, ih, mem_addNode, List.mem_cons]; grind
theorem WF.addNodes {L : Layer} (h : L.WF) (vs : List Nat) : (L.addNodes vs).WF := by
  unfold Layer.addNodes
  induction vs generalizing L with
  | nil => exact h
  | cons v vs ih => exact ih (h.addNode v)

/-! ### addEdge -/
@[simp] theorem kind_addEdge (L : Layer) (u v : Nat) (a : Attr) : (L.addEdge u v a).kind = L.kind := by
  unfold addEdge; simp only; split <;> simp
theorem mem_addEdge_nodes {L : Layer} {u v x : Nat} {a : Attr} :
    x ∈ (L.addEdge u v a).nodes ↔ x ∈ L.nodes ∨ x = u ∨ x = v := by
  unfold addEdge; simp only; split <;> simp [mem_addNode] <;> grind
theorem has_addEdge (L : Layer) (u v x y : Nat) (a : Attr) :
    (L.addEdge u v a).has x y = (L.has x y || same L.kind (x, y) (u, v)) := by
  unfold addEdge; simp only
  split
  · rename_i hh
    simp only [has_addNode] at hh
    have key : (L.has x y || same L.kind (x, y) (u, v)) = L.has x y := by
      cases h2 : same L.kind (x, y) (u, v)
      · simp
      · obtain ⟨e, he, hs⟩ := has_iff.1 hh
        have : L.has x y = true := has_iff.2 ⟨e, he, by rw [same_congr_right h2]; exact hs⟩
        simp [this]
    rw [key]
    simp only [has, kind_addNode, edges_addNode, List.any_map]
    congr 1; funext e
    simp only [Function.comp]; split <;> rfl
  · simp only [has, kind_addNode, edges_addNode, List.any_append, List.any_cons, List.any_nil, Bool.or_false]
    rw [same_symm L.kind (u, v)]

theorem WF.addEdge {L : Layer} (h : L.WF) (u v : Nat) (a : Attr) : (L.addEdge u v a).WF := by
  have h2 := (h.addNode u).addNode v
  have hu : u ∈ ((L.addNode u).addNode v).nodes := by simp [mem_addNode]
  have hv : v ∈ ((L.addNode u).addNode v).nodes := by simp [mem_addNode]
  unfold Layer.addEdge; simp only
  split
  · refine ⟨h2.nodup, ?_, ?_⟩
    · intro e he
      simp only [List.mem_map] at he
      obtain ⟨e0, he0, rfl⟩ := he
      have := h2.ends e0 he0
      split <;> simpa using this
    · simp only [List.pairwise_map]
      refine h2.keys.imp ?_
      intro e f hef
      split <;> split <;> simpa using hef
  · rename_i hh
    refine ⟨h2.nodup, ?_, ?_⟩
    · intro e he
      simp only [List.mem_append, List.mem_singleton] at he
      rcases he with he | rfl
      · exact h2.ends e he
      · exact ⟨hu, hv⟩
    · simp only [List.pairwise_append, List.pairwise_cons, List.not_mem_nil, false_imp_iff, implies_true,
        List.Pairwise.nil, and_self, List.mem_singleton, forall_eq, true_and]
      refine ⟨h2.keys, ?_⟩
      intro e he
      cases hs : same ((L.addNode u).addNode v).kind e.1 (u, v)
      · rfl
      · exact absurd (has_iff.2 ⟨e, he, hs⟩) hh

@[simp] theorem kind_addEdges (L : Layer) (es : List (Nat × Nat)) (a : Attr) : (L.addEdges es a).kind = L.kind := by
  unfold addEdges; induction es generalizing L <;> simp_all
theorem WF.addEdges {L : Layer} (h : L.WF) (es : List (Nat × Nat)) (a : Attr) : (L.addEdges es a).WF := by
  unfold Layer.addEdges
  induction es generalizing L with
  | nil => exact h
  | cons e es ih => exact ih (h.addEdge e.1 e.2 a)
theorem has_addEdges (L : Layer) (es : List (Nat × Nat)) (x y : Nat) (a : Attr) :
    (L.addEdges es a).has x y = (L.has x y || es.any fun e => same L.kind (x, y) e) := by
  unfold addEdges
  induction es generalizing L with
  | nil => simp
  | cons e es ih =>
    simp only [List.foldl_cons, List.any_cons]
    rw [ih, has_addEdge, kind_addEdge, Bool.or_assoc]
theorem mem_addEdges_nodes {L : Layer} {es : List (Nat × Nat)} {x : Nat} {a : Attr} :
    x ∈ (L.addEdges es a).nodes ↔ x ∈ L.nodes ∨ ∃ e ∈ es, x = e.1 ∨ x = e.2 := by
  unfold addEdges
  induction es generalizing L with
  | nil => simp
  | cons e es ih => simp only [List.foldl_cons, ih, mem_addEdge_nodes, List.mem_cons]; grind

/-! ### dropEdge / removeEdge / removeEdges -/
@[simp] theorem kind_dropEdge (L : Layer) (u v : Nat) : (L.dropEdge u v).kind = L.kind := rfl
@[simp] theorem nodes_dropEdge (L : Layer) (u v : Nat) : (L.dropEdge u v).nodes = L.nodes := rfl
theorem has_dropEdge (L : Layer) (u v x y : Nat) :
    (L.dropEdge u v).has x y = (L.has x y && !same L.kind (x, y) (u, v)) := by
  cases h2 : same L.kind (x, y) (u, v)
  · simp only [Bool.not_false, Bool.and_true]
    simp only [has, dropEdge, List.any_filter]
    congr 1; funext e
    cases h3 : same L.kind e.1 (x, y)
    · simp
    · have : same L.kind e.1 (u, v) = false := by
        cases h4 : same L.kind e.1 (u, v)
        · rfl
        · have := same_trans (by rw [same_symm]; exact h3) h4; simp_all
      simp [this]
  · simp only [Bool.not_true, Bool.and_false]
    simp only [has, dropEdge, List.any_filter]
    rw [List.any_eq_false]
    intro e _
    rw [same_congr_right h2]; simp
theorem WF.dropEdge {L : Layer} (h : L.WF) (u v : Nat) : (L.dropEdge u v).WF :=
  ⟨h.nodup, fun e he => h.ends e (List.mem_filter.1 he).1, h.keys.filter _⟩
theorem removeEdge_eq (L : Layer) (u v : Nat) : (L.removeEdge u v).getD L = L.dropEdge u v := by
  unfold removeEdge; split
  · rfl
  · rename_i hh
    simp only [Option.getD_none]
    have : L.edges.filter (fun e => !same L.kind e.1 (u, v)) = L.edges := by
      rw [List.filter_eq_self]; intro e he
      cases hs : same L.kind e.1 (u, v)
      · rfl
      · exact absurd (has_iff.2 ⟨e, he, hs⟩) hh
    simp only [Layer.dropEdge, this]
@[simp] theorem kind_removeEdges (L : Layer) (es : List (Nat × Nat)) : (L.removeEdges es).kind = L.kind := by
  unfold removeEdges; induction es generalizing L <;> simp_all
@[simp] theorem nodes_removeEdges (L : Layer) (es : List (Nat × Nat)) : (L.removeEdges es).nodes = L.nodes := by
  unfold removeEdges; induction es generalizing L <;> simp_all
theorem has_removeEdges (L : Layer) (es : List (Nat × Nat)) (x y : Nat) :
    (L.removeEdges es).has x y = (L.has x y && !es.any fun e => same L.kind (x, y) e) := by
  unfold removeEdges
  induction es generalizing L with
  | nil => simp
  | cons e es ih =>
    simp only [List.foldl_cons, List.any_cons]
    rw [ih, has_dropEdge, kind_dropEdge, Bool.not_or, Bool.and_assoc]
theorem WF.removeEdges {L : Layer} (h : L.WF) (es : List (Nat × Nat)) : (L.removeEdges es).WF := by
  unfold Layer.removeEdges
  induction es generalizing L with
  | nil => exact h
  | cons e es ih => exact ih (h.dropEdge e.1 e.2)

/-! ### dropNode / removeNode / removeNodes -/
@[simp] theorem kind_dropNode (L : Layer) (v : Nat) : (L.dropNode v).kind = L.kind := rfl
theorem mem_dropNode_nodes {L : Layer} {v x : Nat} : x ∈ (L.dropNode v).nodes ↔ x ∈ L.nodes ∧ x ≠ v := by
  simp [dropNode]
theorem has_dropNode (L : Layer) (v x y : Nat) :
    (L.dropNode v).has x y = (L.has x y && x != v && y != v) := by
  rw [Bool.eq_iff_iff]
  simp only [has, dropNode, List.any_filter, List.any_eq_true, Bool.and_eq_true, bne_iff_ne, ne_eq]
  constructor
  · rintro ⟨e, he, ⟨h1, h2⟩, hs⟩
    have := same_ends hs
    exact ⟨⟨⟨e, he, hs⟩, by grind⟩, by grind⟩
  · rintro ⟨⟨⟨e, he, hs⟩, hx⟩, hy⟩
    have := same_ends hs
    exact ⟨e, he, by grind, hs⟩
theorem WF.dropNode {L : Layer} (h : L.WF) (v : Nat) : (L.dropNode v).WF := by
  refine ⟨h.nodup.filter _, ?_, h.keys.filter _⟩
  intro e he
  simp only [Layer.dropNode, List.mem_filter, Bool.and_eq_true, bne_iff_ne, ne_eq] at he ⊢
  have := h.ends e he.1
  grind
theorem removeNode_eq (L : Layer) (v : Nat) (h : L.WF) : (L.removeNode v).getD L = L.dropNode v := by
  unfold removeNode; split
  · rfl
  · rename_i hh
    simp only [Option.getD_none, Layer.dropNode]
    have h1 : L.nodes.filter (· != v) = L.nodes := by
      rw [List.filter_eq_self]; intro x hx; simp; grind
    have h2 : L.edges.filter (fun e => e.1.1 != v && e.1.2 != v) = L.edges := by
      rw [List.filter_eq_self]; intro e he
      have := h.ends e he
      simp; grind
    rw [h1, h2]
@[simp] theorem kind_removeNodes (L : Layer) (vs : List Nat) : (L.removeNodes vs).kind = L.kind := by
  unfold removeNodes; induction vs generalizing L <;> simp_all
theorem mem_removeNodes_nodes {L : Layer} {vs : List Nat} {x : Nat} :
    x ∈ (L.removeNodes vs).nodes ↔ x ∈ L.nodes ∧ x ∉ vs := by
  unfold removeNodes
  induction vs generalizing L with
  | nil => simp
  | cons v vs ih => simp only [List.foldl_cons, ih, mem_dropNode_nodes, List.mem_cons]; grind
theorem has_removeNodes (L : Layer) (vs : List Nat) (x y : Nat) :
    (L.removeNodes vs).has x y = (L.has x y && !vs.contains x && !vs.contains y) := by
  unfold removeNodes
  induction vs generalizing L with
  | nil => simp
  | cons v vs ih =>
    simp only [List.foldl_cons, ih, has_dropNode, List.contains_cons]
    cases L.has x y <;> cases hx : x == v <;> cases hy : y == v <;> simp [bne, hx, hy] <;> grind
theorem WF.removeNodes {L : Layer} (h : L.WF) (vs : List Nat) : (L.removeNodes vs).WF := by
  unfold Layer.removeNodes
  induction vs generalizing L with
  | nil => exact h
  | cons v vs ih => exact ih (h.dropNode v)

/-! ### clearEdges / build -/
@[simp] theorem kind_clearEdges (L : Layer) : L.clearEdges.kind = L.kind := rfl
@[simp] theorem nodes_clearEdges (L : Layer) : L.clearEdges.nodes = L.nodes := rfl
@[simp] theorem has_clearEdges (L : Layer) (x y : Nat) : L.clearEdges.has x y = false := by simp [has, clearEdges]
theorem WF.clearEdges {L : Layer} (h : L.WF) : L.clearEdges.WF :=
  ⟨h.nodup, by simp [Layer.clearEdges], by simp [Layer.clearEdges]⟩
theorem WF.empty (k : Kind) : ({ kind := k } : Layer).WF := ⟨by simp, by simp, by simp⟩
@[simp] theorem kind_build (k : Kind) (ns : List Nat) (es : List (Nat × Nat)) : (build k ns es).kind = k := by
  simp [build]
theorem WF.build (k : Kind) (ns : List Nat) (es : List (Nat × Nat)) : (Layer.build k ns es).WF :=
  ((WF.empty k).addNodes ns).addEdges es []
theorem has_build (k : Kind) (ns : List Nat) (es : List (Nat × Nat)) (x y : Nat) :
    (build k ns es).has x y = es.any fun e => same k (x, y) e := by
  rw [build, has_addEdges]; simp [has]
theorem mem_build_nodes {k : Kind} {ns : List Nat} {es : List (Nat × Nat)} {x : Nat} :
    x ∈ (build k ns es).nodes ↔ x ∈ ns ∨ ∃ e ∈ es, x = e.1 ∨ x = e.2 := by
  simp [build, mem_addEdges_nodes, mem_addNodes]

end Layer
end C02
