import Pw.C02.CopyD

/-! # C02: `abs (copy g) = abs g` -/
namespace C02
namespace MEG

theorem abs_setgattr (G : MEG) (a : Attr) :
    ({ G with gattr := a } : MEG).abs = { G.abs with gattr := attrOf (some a) } := rfl

/-- **copy() returns an equal graph** – same node set, edge types, kinds, per-layer edge sets, and node,
    edge and graph attributes (for an ADMG: under the default kinds of its three default edge types) -/
theorem abs_copy {g : MEG} (hi : g.Inv) (hk : g.KindOK) : g.copy.abs = g.abs.copyS := by
  obtain ⟨hb, ha, _, hkind, hinv⟩ := skeleton_abs hk
  -- stage 0: skeleton with the graph attributes
  have hi0 : ({ g.skeleton with gattr := Attr.upd [] g.gattr } : MEG).Inv := ⟨hinv.nodup, hinv.names, hinv.sync, hinv.wf⟩
  generalize hG0 : ({ g.skeleton with gattr := Attr.upd [] g.gattr } : MEG) = G0 at hi0
  have hS0 : G0.abs = { g.skeleton.abs with gattr := attrOf (some (Attr.upd [] g.gattr)) } := by
    rw [← hG0]; rfl
  -- stage 1: nodes
  obtain ⟨habs1, hi1⟩ := abs_foldl_step (g.nodes.map fun p => GOp.addNode p.1 p.2) hi0
  simp only [List.foldl_map] at habs1 hi1
  have hfold1 : (g.nodes.foldl (fun S p => (S.step (GOp.addNode p.1 p.2)).1) G0.abs) =
      g.nodes.foldl (fun S p => S.addNodeS p.1 p.2) G0.abs := rfl
  rw [hfold1] at habs1
  have hn0 : ∀ x ∈ g.nodes.map (·.1), G0.abs.nattr x = AAttr.empty := by
    intro x _; rw [hS0]; show g.skeleton.abs.nattr x = _; rw [hb.nattr]
  obtain ⟨n1, n2, n3, n4, n5, n6, n7⟩ := AG.foldl_addNodeS g.nodes G0.abs hi.nodup hn0
  -- stage 2: edges
  rw [copy_eq, hG0]
  generalize hG1 : g.nodes.foldl (fun G p => (G.step (GOp.addNode p.1 p.2)).1) G0 = G1 at habs1 hi1 ⊢
  rw [← habs1] at n1 n2 n3 n4 n5 n6 n7
  have hS1kind : G1.abs.kind = g.abs.kind := by rw [n2, hS0]; exact hkind
  have hS1node : ∀ x, G1.abs.node x = g.abs.node x := by
    intro x; rw [n6 x, hS0]
    show (g.skeleton.abs.node x || _) = _
    rw [hb.node]; rfl
  obtain ⟨habs2, _⟩ := abs_foldl_step
    ((copyQuads g).map fun q => GOp.addEdge q.2.1 q.2.2.1 (.one q.1) q.2.2.2) hi1
  simp only [List.foldl_map] at habs2
  rw [habs2]
  have hq : ∀ q ∈ copyQuads g, G1.abs.node q.2.1 = true ∧ G1.abs.node q.2.2.1 = true ∧ (G1.abs.kind q.1).isSome = true := by
    intro q hq
    obtain ⟨p, hp, h1, hu, hadj⟩ := mem_copyQuads.1 hq
    obtain ⟨e, he, _, hs⟩ := Layer.adj_same hadj
    have hends := (hi.wf p hp).ends e he
    have hwn : q.2.2.1 ∈ p.2.nodes := by
      rcases same_ends hs with ⟨_, h⟩ | ⟨h, _⟩
      · rw [← h]; exact hends.2
      · rw [← h]; exact hends.1
    refine ⟨?_, ?_, ?_⟩
    · rw [hS1node]; exact hasNode_iff.2 ((hi.sync p hp _).1 hu)
    · rw [hS1node]; exact hasNode_iff.2 ((hi.sync p hp _).1 hwn)
    · rw [hS1kind, abs_kind_isSome, h1]
      simp only [names, List.contains_eq_mem, List.mem_map, decide_eq_true_eq]
      exact ⟨p, hp, rfl⟩
  rw [AG.foldl_step_addEdge _ _ hq]
  obtain ⟨e1, e2, e3, e4, e5, e6, e7⟩ := AG.foldl_putEdge (copyQuads g) G1.abs
  apply AG.ext'
  · rw [e1, n1, hS0]; exact ha
  · intro v; rw [e2, hS1node]; rfl
  · intro t; rw [e3, hS1kind]; rfl
  · intro t x y
    rw [e6, n3, hS0]
    show (g.skeleton.abs.edge t x y || _) = _
    rw [hb.edge]
    simp only [Bool.false_or, AG.copyS]
    rcases Option.eq_none_or_eq_some (g.layer? t) with hL | ⟨L, hL⟩
    · have : g.abs.edge t x y = false := by simp [abs, hL]
      rw [this, List.any_eq_false]
      intro q hq hh
      obtain ⟨p, hp, h1, _⟩ := mem_copyQuads.1 hq
      have hkn : G1.abs.kind t = none := by rw [hS1kind]; simp [abs, hL]
      simp [AG.hit, hkn] at hh
    · have : g.abs.edge t x y = L.has x y := by simp [abs, hL]
      rw [this]
      exact (copy_hits hi hS1kind hL x y).1
  · intro v
    rw [e4, n7 v]
    have hg : g.abs.copyS.nattr v = attrOf (List.lookup v g.nodes) := rfl
    rw [hg]
    cases hl : List.lookup v g.nodes with
    | none =>
      show G0.abs.nattr v = _
      rw [hS0]; show g.skeleton.abs.nattr v = _; rw [hb.nattr]; rfl
    | some a => rfl
  · intro t x y
    rw [e7, n4, hS0]
    show List.foldl _ (g.skeleton.abs.eattr t x y) _ = _
    rw [hb.eattr]
    simp only [AG.copyS]
    rcases Option.eq_none_or_eq_some (g.layer? t) with hL | ⟨L, hL⟩
    · have h0 : g.abs.eattr t x y = AAttr.empty := by simp [abs, hL]
      have hkn : G1.abs.kind t = none := by rw [hS1kind]; simp [abs, hL]
      rw [h0, AG.foldl_upd_same (copyQuads g) (fun q => G1.abs.hit q t x y) [] (by
        intro q _ hh; simp [AG.hit, hkn] at hh)]
      have : (copyQuads g).any (fun q => G1.abs.hit q t x y) = false := by
        rw [List.any_eq_false]; intro q _ hh; simp [AG.hit, hkn] at hh
      simp [this]
    · have h0 : g.abs.eattr t x y = attrOf (L.find x y) := by simp [abs, hL]
      obtain ⟨hany, hall⟩ := copy_hits hi hS1kind hL x y
      have hw := hi.wf _ (layer_mem hL)
      rw [h0]
      cases hf : L.find x y with
      | none =>
        have hh : L.has x y = false := by rw [← Layer.find_isSome, hf]; rfl
        rw [AG.foldl_upd_same (copyQuads g) (fun q => G1.abs.hit q t x y) [] (by
          intro q hq hhit
          obtain ⟨e, he, _, hs⟩ := hall q hq hhit
          have := Layer.has_iff.2 ⟨e, he, hs⟩
          simp_all)]
        rw [hany, hh]; rfl
      | some a0 =>
        have hh : L.has x y = true := by rw [← Layer.find_isSome, hf]; rfl
        rw [AG.foldl_upd_same (copyQuads g) (fun q => G1.abs.hit q t x y) a0 (by
          intro q hq hhit
          obtain ⟨e, he, hea, hs⟩ := hall q hq hhit
          have := Layer.find_eq_some hw he hs
          rw [hf] at this
          rw [← hea]; exact (Option.some.inj this).symm)]
        rw [hany, hh]
        simp only [ite_true]
        funext k; simp [AAttr.upd, attrOf, AAttr.empty]
  · rw [e5, n5, hS0]
    show attrOf (some (Attr.upd [] g.gattr)) = attrOf (some g.gattr)
    simp [Attr.upd]

end MEG
end C02
