import Pw.C08.Complete
open Closure

/-! # C08: non-vacuity examples, kernel-checked instances (tests), and the counterexample for the
unfixed rule 1 -/
namespace C08
open MG

theorem acyclic_of_rank {D : MG} (r : Nat → Nat) (h : ∀ e ∈ D.dir, r e.1 < r e.2) : Acyclic D := by
  have mono : ∀ {a b}, Anc D a b → r a ≤ r b := by
    intro a b hab
    induction hab with
    | refl => exact Nat.le_refl _
    | step e _ ih => exact Nat.le_trans (Nat.le_of_lt (h _ e)) ih
  intro a b hab hba
  have h1 : r a < r b := h (a, b) hab
  have h2 := mono hba
  omega

/-- `0 -> 1 - 2` (0, 2 non-adjacent): rule 1 must orient `1 -> 2` -/
def exP : MG := { nodes := [0, 1, 2], dir := [(0, 1)], un := [(1, 2)] }
def exD : MG := { nodes := [0, 1, 2], dir := [(0, 1), (1, 2)] }

theorem exP_simple : Simple exP := by
  intro a b h
  simp [exP] at h ⊢
  omega

theorem exP_wf : exP.WF := by
  refine ⟨?_, ?_, ?_⟩ <;> simp [exP]

theorem exP_ext : ConsistentExt exP exD where
  nodes := rfl
  noUn := rfl
  acyclic := acyclic_of_rank id (by simp [exD])
  skel := by intro a b; simp [Skel, exP, exD]; omega
  dir := by simp [exP, exD]
  vstruct := by
    intro a c b
    simp [VStruct, Skel, exP, exD]
    omega

/-- kernel evaluation of the model on `exP` -/
theorem exP_meek : meek exP [0, 1, 2] = { nodes := [0, 1, 2], dir := [(0, 1), (1, 2)], un := [] } := by
  decide +kernel

/-- non-vacuity of `meek_sound` / `meek_complete_of_T3`: the hypotheses hold for `exP`, and the
    closure does orient the edge (kernel evaluation of the model) -/
example : Simple exP ∧ exP.WF ∧ (∃ D, ConsistentExt exP D) ∧ [0, 1, 2].Nodup ∧
    (∀ v ∈ exP.nodes, v ∈ [0, 1, 2]) ∧ (meek exP [0, 1, 2]).dir = [(0, 1), (1, 2)] ∧
    (meek exP [0, 1, 2]).un = [] :=
  ⟨exP_simple, exP_wf, ⟨exD, exP_ext⟩, by decide, by simp [exP], by rw [exP_meek], by rw [exP_meek]⟩

/-- the orientation made on `exP` is indeed compelled (instance of `meek_sound`) -/
example : Compelled exP 1 2 := by
  have h := (meek_sound exP [0, 1, 2] exP_simple (by decide)).2.2.2.2.1 (1, 2)
    (by rw [exP_meek]; decide)
  rcases h with h | h
  · simp [exP] at h
  · exact h.2

/-- non-vacuity of `meek_pattern_essential_of_T3`: the collider `0 -> 2 <- 1` is its own pattern -/
def exV : MG := { nodes := [0, 1, 2], dir := [(0, 2), (1, 2)] }

example : IsDAG exV ∧ IsPattern exV exV ∧ exV.WF := by
  refine ⟨⟨rfl, acyclic_of_rank id (by simp [exV])⟩, ⟨rfl, fun _ _ => Iff.rfl, ?_, ?_⟩, ?_⟩
  · intro a c
    simp only [VStruct, Skel, exV, List.mem_cons, Prod.mk.injEq, List.not_mem_nil, or_false]
    constructor
    · rintro (⟨rfl, rfl⟩ | ⟨rfl, rfl⟩)
      · exact ⟨1, by simp⟩
      · exact ⟨0, by simp⟩
    · rintro ⟨b, h, _⟩; exact h
  · intro a b h; simp [exV]
  · refine ⟨?_, ?_, ?_⟩ <;> simp [exV]

/-! ## the unfixed rule 1 (iterating `predecessors(i)` = all ancestors) is unsound -/

/-- condition of `_meek_rule1` as it was before the fix -/
def cond1Orig (G : MG) (i j : Nat) : Bool := (ancS G i).any fun k => !adj G k j

/-- `2 -> 0 -> 1`, `1 - 2` -/
def cxP : MG := { nodes := [0, 1, 2], dir := [(2, 0), (0, 1)], un := [(1, 2)] }
def cxD : MG := { nodes := [0, 1, 2], dir := [(2, 0), (0, 1), (2, 1)] }

theorem cxP_ext : ConsistentExt cxP cxD where
  nodes := rfl
  noUn := rfl
  acyclic := acyclic_of_rank (fun v => if v = 2 then 0 else if v = 0 then 1 else 2) (by simp [cxD])
  skel := by intro a b; simp [Skel, cxP, cxD]; omega
  dir := by simp [cxP, cxD]
  vstruct := by
    intro a c b
    simp [VStruct, Skel, cxP, cxD]
    omega

/-- **counterexample (fixed defect C08-rule1-ancestors).** With ancestors instead of parents the rule
    fires on `(1, 2)` of `2 -> 0 -> 1, 1 - 2` although `1 -> 2` is not compelled (it closes a cycle). -/
theorem C08_counterexample_rule1_ancestors :
    hasUn cxP 1 2 = true ∧ cond1Orig cxP 1 2 = true ∧ ¬ Compelled cxP 1 2 := by
  have h1 : hasUn cxP 1 2 = true := by decide +kernel
  have h2 : cond1Orig cxP 1 2 = true := by
    simp only [cond1Orig, List.any_eq_true, Bool.not_eq_true']
    refine ⟨2, ?_, by decide⟩
    simp only [ancS, List.mem_filter, bne_iff_ne, ne_eq]
    refine ⟨?_, by decide⟩
    rw [mem_closure]
    exact ⟨0, by decide, by decide, Reach.tail (Reach.refl _) ⟨by decide, by decide⟩⟩
  refine ⟨h1, h2, fun h => ?_⟩
  have := h cxD cxP_ext
  simp [cxD] at this

end C08
