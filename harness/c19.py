"""C19: acyclification realises sigma-separation.

Deciding oracles are Lean-side:
  * `acyspec`  – the graph defined by the edge characterisation of the property (C19.acySpecG; the
                 model C19.acy is proved to satisfy C19.IsAcyclification for every component order),
  * `sigdec`   – brute-force decider of sigma-blocking over all simple paths of G (C19.sigmaSepDec,
                 proved equivalent to the declarative C19.SigmaSep).
The model (`acy`, `sigsep`) is additionally compared with both (Lean-internal consistency and
correspondence model = code)."""
import itertools
import random

from . import common as C
from .shrink import shrink_case

PID = "C19"


# ----------------------------------------------------------------------------- graph helpers (python side, evidence only)
def sccs(n, D):
    """strongly connected components (Kosaraju-free, by mutual reachability) - used ONLY for the
    evidence histograms and for aiming generators, never for deciding"""
    reach = [[i == j for j in range(n)] for i in range(n)]
    for a, b in D:
        reach[a][b] = True
    for k in range(n):
        for i in range(n):
            if reach[i][k]:
                ri, rk = reach[i], reach[k]
                for j in range(n):
                    if rk[j]:
                        ri[j] = True
    comp = {}
    for i in range(n):
        comp[i] = frozenset(j for j in range(n) if reach[i][j] and reach[j][i])
    return comp


def shape(g):
    """(number of non-trivial SCCs, whether two of them are adjacent)"""
    n = g["n"]
    comp = sccs(n, g["D"])
    nt = set(c for c in comp.values() if len(c) > 1)
    adj = False
    for a, b in g["D"] + g["B"]:
        if comp[a] != comp[b] and len(comp[a]) > 1 and len(comp[b]) > 1:
            adj = True
            break
    return len(nt), adj


# ----------------------------------------------------------------------------- lean request lines
def gl(g):
    return C.g_line({"n": g["n"], "N": g.get("N", list(range(g["n"]))), "D": g["D"], "B": g["B"], "U": [], "C": []})


def line_spec(case):
    return "acyspec " + gl(case["g"])


def line_model(case, order=None):
    s = "acy " + gl(case["g"])
    if order is not None:
        s += " O=" + ",".join(map(str, order))
    return s


def qargs(case):
    return " X=%s Y=%s Z=%s" % (C.fmt_set(case["X"]), C.fmt_set(case["Y"]), C.fmt_set(case["Z"]))


def line_dec(case, Z=None):
    c = case if Z is None else dict(case, Z=Z)
    return "sigdec " + gl(case["g"]) + qargs(c)


def line_sigmodel(case):
    return "sigsep " + gl(case["g"]) + qargs(case)


# ----------------------------------------------------------------------------- implementation runners
def build(case, lab):
    g = case["g"]
    layers = case.get("layers", "DB")
    return C.build_mixed({"n": g["n"], "N": C.g_nodes(g), "D": g["D"], "B": g["B"], "U": [], "C": []}, lab,
                         layers=tuple(layers))


def canon_result(A, lab):
    """canonical string of a returned graph in terms of indices"""
    try:
        nodes = [lab.inv(v) for v in A.nodes]
        D = [(lab.inv(a), lab.inv(b)) for a, b in A.get_graphs("directed").edges]
        B = []
        if "bidirected" in A.edge_types:
            B = [(lab.inv(a), lab.inv(b)) for a, b in A.get_graphs("bidirected").edges]
        # the layers' own node sets must agree with the graph's node set
        for et, gr in A.get_graphs().items():
            if set(gr.nodes) != set(A.nodes):
                return "bad:layer-nodes:" + et
        return C.canon_graph(nodes, D=D, B=B)
    except KeyError as e:
        return "bad:unknown-node:" + repr(e)


def impl_acy(case):
    """returns dict: graph (copy=True result), mutated (input changed by copy=True call), fresh
    (result is a new object), inplace (copy=False result), inplace_same (returned the input object)"""
    from pywhy_graphs.algorithms.cyclic import acyclification
    lab = C.Labels(case.get("fam", "int"))
    try:
        G = build(case, lab)
    except Exception as e:
        return {"graph": "err:build:" + type(e).__name__}
    if C.warm_decide(case, 4):
        # query, edit the same object in place, query again (see common.warmup)
        C.warmup(G, lambda: acyclification(G), layers=("directed", "bidirected"))
    before = C.snapshot(G)
    try:
        A = acyclification(G)
        res = canon_result(A, lab)
    except Exception as e:
        return {"graph": "err:" + type(e).__name__ + ":" + str(e)[:80]}
    after = C.snapshot(G)
    out = {"graph": res, "mutated": before != after, "fresh": A is not G}
    if case.get("inplace") is False:
        return out
    try:
        G2 = build(case, lab)
        A2 = acyclification(G2, copy=False)
        out["inplace"] = canon_result(A2, lab)
        out["inplace_same"] = A2 is G2
    except Exception as e:
        out["inplace"] = "err:" + type(e).__name__
        out["inplace_same"] = True
    return out


def impl_sig(case):
    """returns dict: ans, swapped, mutated"""
    import networkx as nx
    from pywhy_graphs.algorithms.cyclic import sigma_separated
    lab = C.Labels(case.get("fam", "int"))
    try:
        G = build(case, lab)
    except Exception as e:
        return {"ans": "err:build:" + type(e).__name__}
    X = {lab(v) for v in case["X"]}
    Y = {lab(v) for v in case["Y"]}
    Z = {lab(v) for v in case["Z"]}
    if C.warm_decide(case, 3):
        # query, edit the same object in place, query again (see common.warmup / detour)
        import zlib as _z
        C.warmup(G, lambda: sigma_separated(G, set(X), set(Y), set(Z)), layers=("directed", "bidirected"),
                 salt=_z.crc32(repr(sorted(case["g"].items())).encode()) | 1)
    if C.warm_decide({"g": case["g"], "k": "isolated"}, 4) and Y:
        # between two queries a node without edges is added: it is sigma-separated from everything, and the
        # query about it must see it
        W = ("isolated-extra", len(case["g"]["D"]))
        try:
            sigma_separated(G, set(X), set(Y), set(Z))
        except Exception:
            pass
        try:
            G.add_node(W)
            try:
                r_ = sigma_separated(G, {W}, set(Y), set(Z))
                okW = r_ is True
            except nx.NetworkXError as e_:
                okW = "acyclic" in str(e_)        # (the guard of a cyclic acyclification is not about W)
            except Exception:
                okW = False
            G.remove_node(W)
        except Exception:
            okW = True
        if not okW:
            return {"ans": "bad:query-about-a-node-added-between-two-queries", "swapped": None, "mutated": False}
    before = C.snapshot(G)

    def call(a, b):
        try:
            wrap = frozenset if case.get("fam") == "nested" else set
            r = sigma_separated(G, wrap(a), wrap(b), wrap(Z))
            return "T" if r is True else ("F" if r is False else "bad:" + repr(r))
        except nx.NetworkXError as e:
            return "err:cyclic" if "acyclic" in str(e) else "err:nx"
        except Exception as e:
            return "err:" + type(e).__name__
    ans = call(X, Y)
    sw = call(Y, X)
    return {"ans": ans, "swapped": sw, "mutated": before != C.snapshot(G)}


def impl(case):
    return impl_sig(case) if case["kind"] == "sig" else impl_acy(case)


# ----------------------------------------------------------------------------- generators
DSTATES = [(), ("D>",), ("D<",), ("D>", "D<")]


def enum_dir_bi(n):
    """every directed graph on n nodes (pair states none, ->, <-, both) x every set of bidirected edges"""
    prs = C.all_pairs(n)
    for dcombo in itertools.product(range(4), repeat=len(prs)):
        D = []
        for (a, b), s in zip(prs, dcombo):
            if s & 1:
                D.append([a, b])
            if s & 2:
                D.append([b, a])
        for bmask in range(1 << len(prs)):
            B = [[a, b] for i, (a, b) in enumerate(prs) if bmask >> i & 1]
            yield {"n": n, "D": D, "B": B}


def has_cycle4(D):
    return not C.is_acyclic(4, D)


def queries(n, singleton_only=False, unordered=False):
    nodes = list(range(n))
    for assign in itertools.product((0, 1, 2, 3), repeat=n):  # 0 none,1 X,2 Y,3 Z
        X = [v for v in nodes if assign[v] == 1]
        Y = [v for v in nodes if assign[v] == 2]
        Z = [v for v in nodes if assign[v] == 3]
        if not X or not Y:
            continue
        if singleton_only and (len(X) > 1 or len(Y) > 1):
            continue
        if unordered and X[0] > Y[0]:
            continue
        yield X, Y, Z


def rand_blocks(rng, n):
    """random graph built from blocks in a DAG order: >= 2 blocks are cycles (with chords), some
    pair of cyclic blocks is joined by a directed or bidirected edge (the shape the unchanged
    loop mis-handles); remaining edges random between blocks (following the block order for the
    directed layer so that the blocks are exactly the SCCs) plus random bidirected edges"""
    nodes = list(range(n))
    rng.shuffle(nodes)
    ncyc = 2 if n < 7 else rng.choice((2, 3))
    sizes = [2] * ncyc
    for k in range(ncyc):
        if sum(sizes) < n and rng.random() < 0.4:
            sizes[k] += 1
    blocks, i = [], 0
    for k in sizes:
        blocks.append(nodes[i:i + k])
        i += k
    while i < n:
        blocks.append(nodes[i:i + 1])
        i += 1
    rng.shuffle(blocks)
    D, B = [], []
    for b in blocks:
        if len(b) > 1:
            for j in range(len(b)):
                D.append([b[j], b[(j + 1) % len(b)]])
            if len(b) == 2:
                pass
            else:
                for u in b:
                    for v in b:
                        if u != v and [u, v] not in D and rng.random() < 0.25:
                            D.append([u, v])
            for u, v in itertools.combinations(b, 2):
                if rng.random() < 0.15:
                    B.append([u, v])
    cyc = [k for k, b in enumerate(blocks) if len(b) > 1]
    # join two cyclic blocks
    k1, k2 = sorted(rng.sample(cyc, 2))
    u, v = rng.choice(blocks[k1]), rng.choice(blocks[k2])
    r = rng.random()
    if r < 0.55:
        D.append([u, v])
    elif r < 0.85:
        B.append([u, v])
    else:
        D.append([u, v])
        B.append([rng.choice(blocks[k1]), rng.choice(blocks[k2])])
    pd = rng.choice((0.08, 0.15, 0.3, 0.45))
    pb = rng.choice((0.0, 0.05, 0.1, 0.25))
    for a in range(len(blocks)):
        for b in range(a + 1, len(blocks)):
            for u in blocks[a]:
                for v in blocks[b]:
                    if rng.random() < pd and [u, v] not in D:
                        D.append([u, v])
                    if rng.random() < pb and [u, v] not in B and [v, u] not in B:
                        B.append([u, v])
    return {"n": n, "D": D, "B": B}


def rand_any(rng, n):
    """unstructured random cyclic graph"""
    pd = rng.choice((0.15, 0.25, 0.4))
    pb = rng.choice((0.0, 0.15, 0.3))
    D, B = [], []
    for a, b in C.all_pairs(n):
        r = rng.random()
        if r < pd:
            D.append([a, b])
        elif r < 2 * pd:
            D.append([b, a])
        elif r < 2 * pd + 0.1:
            D += [[a, b], [b, a]]
        if rng.random() < pb:
            B.append([a, b])
    return {"n": n, "D": D, "B": B}


def shuffle_g(rng, g):
    h = C.shuffled_graph(rng, {"n": g["n"], "D": g["D"], "B": g["B"], "U": [], "C": []})
    return {"n": g["n"], "N": h["N"], "D": h["D"], "B": h["B"]}


def rand_query(rng, n):
    nodes = list(range(n))
    rng.shuffle(nodes)
    kx, ky = rng.choice((1, 1, 1, 2)), rng.choice((1, 1, 2))
    X, Y = nodes[:kx], nodes[kx:kx + ky]
    rest = nodes[kx + ky:]
    p = rng.choice((0.2, 0.4, 0.6, 0.8))
    Z = [v for v in rest if rng.random() < p]
    return sorted(X), sorted(Y), sorted(Z)


def decorate(rng, case, i):
    """label family / insertion order / missing bidirected layer"""
    fams = C.Labels.FAMILIES
    case["fam"] = fams[i % len(fams)]
    if i % 2 == 0:
        case["g"] = shuffle_g(rng, case["g"])
    if not case["g"]["B"] and i % 3 == 1:
        case["layers"] = "D"       # "optional bidirected layer": the layer does not exist at all
    return case


def gen_cases(ctx):
    tier, rng = ctx["tier"], ctx["rng"]
    for c in C.load_corpus(PID):
        c = dict(c)
        c["src"] = "corpus"
        yield c
    # (i) exhaustive
    for n in (1, 2, 3):
        for g in enum_dir_bi(n):
            yield {"kind": "acy", "g": g, "src": "exh%d" % n}
            for X, Y, Z in queries(n):
                yield {"kind": "sig", "g": g, "X": X, "Y": Y, "Z": Z, "src": "exh%d" % n}
    if tier == "thorough":
        k = 0
        qs4 = list(queries(4, singleton_only=True, unordered=True))
        j = 0
        for g in enum_dir_bi(4):
            j += 1
            c = {"kind": "acy", "g": g, "src": "exh4"}
            if j % 4:
                c["inplace"] = False     # the copy=False variant is run on every 4th graph only
            yield c
            if not has_cycle4(g["D"]):
                continue   # acyclic directed layer: sigma-separation = m-separation (C01)
            k += 1
            # every 32nd cyclic graph gets the full singleton query table, every other one one seeded query
            if k % 32 == 0:
                sel = qs4
            elif k % 2 == 0:
                sel = [qs4[rng.randrange(len(qs4))]]
            else:
                sel = []
            for X, Y, Z in sel:
                yield {"kind": "sig", "g": g, "X": X, "Y": Y, "Z": Z, "src": "exh4"}
    else:
        # quick: a seeded sample of the 4-node table
        prs = C.all_pairs(4)
        for i in range(1200):
            D = []
            for a, b in prs:
                s = rng.randrange(4)
                if s & 1:
                    D.append([a, b])
                if s & 2:
                    D.append([b, a])
            B = [[a, b] for a, b in prs if rng.random() < 0.3]
            g = {"n": 4, "D": D, "B": B}
            yield {"kind": "acy", "g": g, "src": "smp4"}
            for X, Y, Z in rng.sample(list(queries(4)), 4):
                yield {"kind": "sig", "g": g, "X": X, "Y": Y, "Z": Z, "src": "smp4"}
    # (ii) structured random: n = 5..7, >= 2 adjacent non-trivial SCCs; plus unstructured cyclic graphs
    N = 2000 if tier == "quick" else 20000
    for i in range(N):
        n = rng.choice((5, 5, 6, 6, 7))
        g = rand_blocks(rng, n) if i % 5 != 4 else rand_any(rng, n)
        yield decorate(rng, {"kind": "acy", "g": g, "src": "rnd"}, i)
        for j in range(3):
            X, Y, Z = rand_query(rng, n)
            yield decorate(rng, {"kind": "sig", "g": g, "X": X, "Y": Y, "Z": Z, "src": "rnd"}, i + j)


# ----------------------------------------------------------------------------- judging
def expected_lines(case):
    """lean requests for a case: [deciding oracle, model, (extra)]"""
    g = case["g"]
    if case["kind"] == "acy":
        rev = list(reversed(C.g_nodes(g)))
        return [line_spec(case), line_model(case), line_model(case, rev)]
    return [line_dec(case), line_sigmodel(case), line_dec(case, Z=[])]


def verdict(case, got, exp):
    """None if fine, else (kind, detail).  exp = answers to expected_lines(case)"""
    if case["kind"] == "acy":
        spec = exp[0]
        if got["graph"] != spec:
            return "edges", "acyclification(G)=%s  characterisation=%s" % (got["graph"], spec)
        if got.get("mutated"):
            return "mutation", "acyclification(G, copy=True) changed its argument"
        if not got.get("fresh", True):
            return "mutation", "acyclification(G, copy=True) returned its argument"
        if "inplace" in got and got["inplace"] != spec:
            return "edges-inplace", "acyclification(G, copy=False)=%s  characterisation=%s" % (got.get("inplace"), spec)
        return None
    dec = exp[0]
    if got["ans"] != dec:
        return "sigma", "sigma_separated=%s  path definition (Lean decider)=%s" % (got["ans"], dec)
    if got.get("swapped") != got["ans"]:
        return "symmetry", "sigma_separated(X,Y)=%s but (Y,X)=%s" % (got["ans"], got.get("swapped"))
    if got.get("mutated"):
        return "mutation", "sigma_separated changed its argument"
    return None


def lean_consistent(case, exp):
    """the proved model must agree with the spec oracle (a mismatch is a break of the Lean side)"""
    if case["kind"] == "acy":
        return exp[1] == exp[0] and exp[2] == exp[0]
    return exp[1] == exp[0]


def fails(case, drv):
    got = impl(case)
    exp = [drv.ask(l) for l in expected_lines(case)]
    return verdict(case, got, exp) is not None


def run(ctx):
    ev, out = ctx["ev"], ctx["out"]
    ev.rule = ("corpus; exhaustive: every directed graph on 1-3 nodes (pair states none,->,<-,both) x every set of "
               "bidirected edges, acyclification compared per graph and sigma_separated for every disjoint (X,Y,Z); "
               "thorough: all 262144 graphs on 4 nodes for acyclification and, for the cyclic ones, singleton queries "
               "(full table on every 32nd graph, one sampled query on every other one; copy=False on every 4th graph); quick: 1200 sampled 4-node graphs; "
               "random: n in 5..7 built from blocks with >= 2 non-trivial SCCs two of which are adjacent through a "
               "directed or bidirected edge (4 of 5) or unstructured cyclic graphs (1 of 5), shuffled insertion order, "
               "five label families, bidirected layer absent when empty; copy=True non-mutation by snapshot, "
               "copy=False result compared too. non-trivial = acyclification case with >= 1 non-trivial SCC, or "
               "sigma case on such a graph with Z non-empty whose verified answer differs from the answer for Z={}")
    ev.assumptions = ["no self loops; only the directed and bidirected layers are populated (the property's quantifier)",
                      "X, Y, Z pairwise disjoint subsets of V, X and Y non-empty",
                      "sigma-separation equivalence rests on Forre-Mooij (T8); it is TESTED here against the Lean "
                      "brute-force decider over simple paths, not proved",
                      "label->index bijection and canonicalisation in harness/common.py"]
    cases = list(gen_cases(ctx))
    ev.exhaustive = False
    lines, idx = [], []
    for c in cases:
        ls = expected_lines(c)
        idx.append((len(lines), len(ls)))
        lines += ls
    ans = C.lean_batch(lines)
    gots = C.pmap(impl, cases, chunksize=128)
    bad, broken = [], []
    shape_cache = {}
    for case, got, (o, k) in zip(cases, gots, idx):
        exp = ans[o:o + k]
        gid = id(case["g"])
        if gid not in shape_cache:
            shape_cache[gid] = shape(case["g"])
        nt, adj = shape_cache[gid]
        if case["kind"] == "acy":
            nontriv = nt > 0
            ev.count("acy:ntSCC=%d%s" % (min(nt, 3), "+adj" if adj else ""))
        else:
            nontriv = nt > 0 and bool(case["Z"]) and exp[0] != exp[2]
            ev.count("sig:" + exp[0] + (":cyc" if nt else ":dag"))
        ev.case(case, nontrivial=nontriv, sample_every=20000)
        ev.count("src:" + case["src"] + ":" + case["kind"])
        if not lean_consistent(case, exp):
            broken.append((case, exp))
        r = verdict(case, got, exp)
        if r:
            bad.append((case, r, got, exp))
    ev.extra["exhaustive_part"] = ("graphs on <=3 nodes x all bidirected subsets x all disjoint queries (quick); "
                                   "+ all 4-node graphs for the edge characterisation (thorough)")
    if broken:
        case, exp = broken[0]
        out.proof_breaks.append("Lean model C19.acy/sigmaSeparatedE disagrees with the Lean spec oracle on %r: %r"
                                % (case, exp))
    if bad:
        drv = C.Driver()
        try:
            seen = set()
            for case, (kind, detail), got, exp in bad:
                if kind in seen:
                    continue
                seen.add(kind)
                small = shrink_case(case, lambda c: fails(c, drv))
                g2 = impl(small)
                e2 = [drv.ask(l) for l in expected_lines(small)]
                v2 = verdict(small, g2, e2)
                out.violation(small, {"kind": v2[0] if v2 else kind, "detail": v2[1] if v2 else detail, "impl": g2,
                                      "lean": e2, "lean_requests": expected_lines(small), "original_case": case,
                                      "disagreements_total": len(bad)})
        finally:
            drv.close()


def replay(ctx, payload):
    case = payload["case"]
    drv = C.Driver()
    got = impl(case)
    exp = [drv.ask(l) for l in expected_lines(case)]
    drv.close()
    print("implementation:", got)
    print("lean:", dict(zip(expected_lines(case), exp)))
    v = verdict(case, got, exp)
    print("REPRODUCED" if v else "NOT-REPRODUCED", v or "")
    return 1 if v else 0


# ----------------------------------------------------------------------------- C15 adapter
def c15_cases(rng, k):
    out = []
    for i in range(k):
        n = rng.choice((4, 5, 5, 6))
        g = rand_blocks(rng, n) if n >= 5 else rand_any(rng, n)
        if i % 2 == 0:
            out.append({"kind": "acy", "g": g})
        else:
            X, Y, Z = rand_query(rng, n)
            out.append({"kind": "sig", "g": g, "X": X, "Y": Y, "Z": Z})
    return out


def c15_eval(case, fam, order_seed):
    c = dict(case)
    c["fam"] = fam
    c["g"] = shuffle_g(random.Random(order_seed), case["g"])
    if c["kind"] == "acy":
        got = impl_acy(c)
        if got.get("mutated"):
            return "mutated:" + got["graph"]
        return got["graph"]
    got = impl_sig(c)
    if got.get("swapped") != got["ans"]:
        return "asym:%s/%s" % (got["ans"], got.get("swapped"))
    return got["ans"]


def c15_expected(cases):
    return C.lean_batch([line_spec(c) if c["kind"] == "acy" else line_dec(c) for c in cases])
