import Pw.T5b.IndWalk
open Closure MG

/-! # T5b, part 3b: directed D-walks through latent nodes

* `descend`: from a node that is not an ancestor of S, follow a directed path towards an observed target
  until the first observed node;
* `antM_of_anc`: a directed D-path between observed nodes that avoids An(S) is a directed M-path. -/
namespace T5b
open C06

variable {D M : MG} {L S : List Nat}

/-- every hop is a directed edge traversed forwards -/
def DownW : List Hop → Prop
  | [] => True
  | h :: t => h.mp = .tail ∧ h.mn = .head ∧ DownW t

/-- every node that has an outgoing hop is latent -/
def SrcL (L : List Nat) : Nat → List Hop → Prop
  | _, [] => True
  | a, h :: t => a ∈ L ∧ SrcL L h.nx t

theorem anc_of_down : ∀ (δ : List Hop) (a : Nat), ValidW D a δ → DownW δ → Anc D a (endNode a δ)
  | [], a, _, _ => Anc.refl a
  | h :: t, a, hv, hd => by
    obtain ⟨hv1, hv2⟩ := hv
    obtain ⟨h1, h2, hd2⟩ := hd
    rw [h1, h2] at hv1
    exact Anc.step hv1.dir_of_tail_head (anc_of_down t h.nx hv2 hd2)

theorem not_anS_of_anc {a b : Nat} (h : Anc D a b) (ha : ¬ AnS D S a) : ¬ AnS D S b := by
  rintro ⟨s, hs, hb⟩
  exact ha ⟨s, hs, h.trans hb⟩

theorem not_mem_S_of_not_anS {a : Nat} (ha : ¬ AnS D S a) : a ∉ S :=
  fun h => ha ⟨a, h, Anc.refl a⟩

theorem descend (su : Setup D L S M) {c t : Nat} (ha : Anc D c t) (ht : Obs D L S t)
    (hc : ¬ AnS D S c) :
    ∃ δ o, ValidW D c δ ∧ endNode c δ = o ∧ DownW δ ∧ SrcL L c δ ∧ Obs D L S o ∧ Anc D o t := by
  induction ha with
  | refl c => exact ⟨[], c, trivial, rfl, trivial, trivial, ht, Anc.refl c⟩
  | @step c b t e hbt ih =>
    by_cases hobs : Obs D L S c
    · exact ⟨[], c, trivial, rfl, trivial, trivial, hobs, Anc.step e hbt⟩
    · have hcn : c ∈ D.nodes := (su.wf.1 _ e).1
      have hcL : c ∈ L := by
        apply Classical.byContradiction
        intro hn
        exact hobs ⟨hcn, hn, not_mem_S_of_not_anS hc⟩
      obtain ⟨δ, o, dv, de, dd, dl, ho, hot⟩ :=
        ih ht (not_anS_of_anc (Anc.step e (Anc.refl b)) hc)
      exact ⟨⟨.tail, .head, b⟩ :: δ, o, ⟨Or.inl ⟨rfl, rfl, e⟩, dv⟩, de, ⟨rfl, rfl, dd⟩, ⟨hcL, dl⟩,
        ho, hot⟩

/-- a downward walk through latent sources is open (no colliders, non-colliders latent) -/
theorem openP_down {C : Nat → Prop} : ∀ (δ : List Hop) (c : Nat) (e : Option Mark),
    DownW δ → SrcL L c δ → OpenP C (NL D L) e c δ
  | [], _, _, _, _ => trivial
  | h :: t, c, e, hd, hl => by
    refine ⟨?_, openP_down t h.nx _ hd.2.2 hl.2⟩
    cases e with
    | none => trivial
    | some m =>
      simp only [condPO, condP, hd.1]
      have : ¬ (m = .head ∧ Mark.tail = .head) := by rintro ⟨_, h⟩; cases h
      simp only [this, if_false]
      exact not_mem_NL hl.1

theorem exitMark_down : ∀ (δ : List Hop) (e : Option Mark), DownW δ → δ ≠ [] →
    exitMark e δ = some .head
  | [], _, _, hne => absurd rfl hne
  | [h], _, hd, _ => by simp [exitMark, lastMn, hd.2.1]
  | h :: h2 :: t, e, hd, _ => by
    have := exitMark_down (h2 :: t) e hd.2.2 (by simp)
    simpa [exitMark, lastMn] using this

theorem revHops_ne_nil : ∀ (δ : List Hop) (c : Nat), δ ≠ [] → revHops c δ ≠ []
  | [], _, hne => absurd rfl hne
  | h :: t, c, _ => by simp [revHops]

/-- the reversed (upward) walk starts with an arrowhead at its source … -/
theorem rev_down_head : ∀ (δ : List Hop) (c : Nat), DownW δ → ∀ p ∈ (revHops c δ).head?, p.mp = .head
  | [], _, _, p, hp => by simp [revHops] at hp
  | [h], c, hd, p, hp => by
    simp [revHops] at hp
    rw [← hp]; exact hd.2.1
  | h :: h2 :: t, c, hd, p, hp => by
    have hne := revHops_ne_nil (h2 :: t) h.nx (by simp)
    apply rev_down_head (h2 :: t) h.nx hd.2.2 p
    simp only [revHops] at hp hne ⊢
    cases hr : revHops h2.nx t ++ [⟨h2.mn, h2.mp, h.nx⟩] with
    | nil => exact absurd hr hne
    | cons a b => rw [hr] at hp; simpa using hp

/-- … and ends with a tail at its target -/
theorem rev_down_exit (δ : List Hop) (c : Nat) (hd : DownW δ) (hne : δ ≠ []) (e : Option Mark) :
    exitMark e (revHops c δ) = some .tail := by
  cases δ with
  | nil => exact absurd rfl hne
  | cons h t =>
    simp only [revHops]
    rw [exitMark_snoc]
    simp [hd.1]

/-- the upward walk is open as well -/
theorem openP_up {C : Nat → Prop} (δ : List Hop) (c : Nat) (hd : DownW δ) (hl : SrcL L c δ) :
    OpenP C (NL D L) none (endNode c δ) (revHops c δ) := by
  have := (openP_revHops (C := C) (Z := NL D L) δ c none none).mp
    ⟨openP_down δ c none hd hl, by cases δ <;> simp [condPO, exitMark]⟩
  exact this.1

/-! ## directed D-paths avoiding An(S) are directed M-paths -/

/-- all hop targets except the last are latent -/
def InnL (L : List Nat) : List Hop → Prop
  | [] => True
  | [_] => True
  | h :: h2 :: t => h.nx ∈ L ∧ InnL L (h2 :: t)

theorem innL_snoc : ∀ (pre : List Hop) (v : Nat) (h : Hop), InnL L pre →
    (pre ≠ [] → endNode v pre ∈ L) → InnL L (pre ++ [h])
  | [], _, _, _, _ => trivial
  | [p], v, h, _, hu => ⟨by simpa [endNode] using hu (by simp), trivial⟩
  | p :: p2 :: t, v, h, hi, hu => by
    refine ⟨hi.1, ?_⟩
    exact innL_snoc (p2 :: t) p.nx h hi.2 (fun _ => by simpa [endNode] using hu (by simp))

theorem downW_snoc : ∀ (pre : List Hop) (h : Hop), DownW pre → h.mp = .tail → h.mn = .head →
    DownW (pre ++ [h])
  | [], _, _, h1, h2 => ⟨h1, h2, trivial⟩
  | p :: t, h, hd, h1, h2 => ⟨hd.1, hd.2.1, downW_snoc t h hd.2.2 h1 h2⟩

theorem openP_innL {C : Nat → Prop} : ∀ (δ : List Hop) (c : Nat) (e : Option Mark),
    DownW δ → InnL L δ → (e ≠ none → c ∈ L) → OpenP C (NL D L) e c δ
  | [], _, _, _, _, _ => trivial
  | h :: t, c, e, hd, hl, hc => by
    have hrest : OpenP C (NL D L) (some h.mn) h.nx t := by
      cases t with
      | nil => trivial
      | cons h2 t2 => exact openP_innL (h2 :: t2) h.nx _ hd.2.2 hl.2 (fun _ => hl.1)
    refine ⟨?_, hrest⟩
    cases e with
    | none => trivial
    | some m =>
      simp only [condPO, condP, hd.1]
      have : ¬ (m = .head ∧ Mark.tail = .head) := by rintro ⟨_, h⟩; cases h
      simp only [this, if_false]
      exact not_mem_NL (hc (by simp))

/-- a non-empty directed walk between observed nodes through latent nodes is an M-edge with a tail
    at its source -/
theorem edge_of_down (su : Setup D L S M) {v : Nat} {pre : List Hop} (hne : pre ≠ [])
    (hv : ValidW D v pre) (hd : DownW pre) (hi : InnL L pre) (hov : Obs D L S v)
    (hou : Obs D L S (endNode v pre)) : ∃ m, HasEdge M v (endNode v pre) .tail m := by
  cases pre with
  | nil => exact absurd rfl hne
  | cons p t =>
    have hvp := hv.1
    rw [hd.1, hd.2.1] at hvp
    have he : (v, p.nx) ∈ D.dir := hvp.dir_of_tail_head
    have hanc : Anc D p.nx (endNode v (p :: t)) := anc_of_down t p.nx hv.2 hd.2.2
    have hne' : v ≠ endNode v (p :: t) := by
      intro heq
      rw [← heq] at hanc
      exact su.acy _ _ he hanc
    have hop : OpenP (AncOf D v (endNode v (p :: t)) S) (NL D L) none v (p :: t) :=
      openP_innL (p :: t) v none hd hi (by intro h; exact absurd rfl h)
    have hlk : Lk D L S v (endNode v (p :: t)) false false :=
      ⟨p :: t, by simp, ⟨hv, rfl, hop⟩, (by intro h; cases h), (by intro h; cases h)⟩
    have hedge := edge_of_lk su hov hou hne' hlk
    have htail : mkAt D S (endNode v (p :: t)) v = .tail :=
      mkAt_tail.mpr ⟨_, List.mem_append_right _ (by simp), p.nx, he, hanc⟩
    rw [htail] at hedge
    exact ⟨_, hedge⟩

theorem antM_of_down (su : Setup D L S M) : ∀ (δ : List Hop) (v : Nat) (pre : List Hop),
    Obs D L S v → ¬ AnS D S v → ValidW D v pre → DownW pre → InnL L pre →
    ValidW D (endNode v pre) δ → DownW δ → Obs D L S (endNode (endNode v pre) δ) →
    Ant M v (endNode (endNode v pre) δ)
  | [], v, pre, hov, _, pv, pd, pi, _, _, hot => by
    simp only [endNode] at hot ⊢
    by_cases hne : pre = []
    · subst hne; exact Ant.refl v
    · obtain ⟨m, he⟩ := edge_of_down su hne pv pd pi hov hot
      exact Ant.step he (Ant.refl _)
  | h :: δ', v, pre, hov, hvS, pv, pd, pi, dv, dd, hot => by
    have hu : endNode v pre ∈ D.nodes := by
      have := dv.1
      exact (HasEdge.mem_nodes su.wf this.symm)
    have hanc : Anc D v (endNode v pre) := anc_of_down pre v pv pd
    have huS : ¬ AnS D S (endNode v pre) := not_anS_of_anc hanc hvS
    by_cases hcut : pre ≠ [] ∧ Obs D L S (endNode v pre)
    · obtain ⟨m, he⟩ := edge_of_down su hcut.1 pv pd pi hov hcut.2
      have := antM_of_down su δ' (endNode v pre) [h] hcut.2 huS ⟨dv.1, trivial⟩ ⟨dd.1, dd.2.1, trivial⟩
        trivial dv.2 dd.2.2 hot
      exact Ant.step he this
    · have hext : pre ≠ [] → endNode v pre ∈ L := by
        intro hne
        apply Classical.byContradiction
        intro hn
        exact hcut ⟨hne, hu, hn, not_mem_S_of_not_anS huS⟩
      have := antM_of_down su δ' v (pre ++ [h]) hov hvS
        (by rw [validW_append]; exact ⟨pv, dv.1, trivial⟩)
        (downW_snoc pre h pd dd.1 dd.2.1) (innL_snoc pre v h pi hext)
        (by rw [endNode_snoc]; exact dv.2) dd.2.2 (by rw [endNode_snoc]; exact hot)
      rw [endNode_snoc] at this
      exact this

theorem down_of_anc {a t : Nat} (h : Anc D a t) :
    ∃ δ, ValidW D a δ ∧ DownW δ ∧ endNode a δ = t := by
  induction h with
  | refl a => exact ⟨[], trivial, trivial, rfl⟩
  | @step a b c e _ ih =>
    obtain ⟨δ, dv, dd, de⟩ := ih
    exact ⟨⟨.tail, .head, b⟩ :: δ, ⟨Or.inl ⟨rfl, rfl, e⟩, dv⟩, ⟨rfl, rfl, dd⟩, de⟩

/-- an observed non-ancestor of S that is a D-ancestor of an observed node is M-anterior to it -/
theorem antM_of_anc (su : Setup D L S M) {v t : Nat} (hv : Obs D L S v) (ht : Obs D L S t)
    (hvS : ¬ AnS D S v) (h : Anc D v t) : Ant M v t := by
  obtain ⟨δ, dv, dd, de⟩ := down_of_anc h
  have := antM_of_down su δ v [] hv hvS trivial trivial trivial dv dd (by
    simp only [endNode]; rw [de]; exact ht)
  simp only [endNode] at this
  rwa [de] at this

end T5b
