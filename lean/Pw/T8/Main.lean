import Pw.T8.FromAcy
open Closure MG

/-! # T8 (Forré–Mooij): sigma-separation in G = m-separation in the acyclification of G -/
namespace C19

variable {G A : MG}

theorem A_noSelfLoop (hun : G.un = []) (hacy : IsAcyclification G A) : NoSelfLoop A := by
  intro a ma mb he
  rcases he with ⟨_, _, h⟩ | ⟨_, _, h⟩ | ⟨_, _, h⟩ | ⟨_, _, h⟩
  · exact ((hacy.dir a a).mp h).1 (SC.refl G a)
  · exact ((hacy.dir a a).mp h).1 (SC.refl G a)
  · exact ((hacy.bi a a).mp h).1 rfl
  · rw [hacy.un, hun] at h; rcases h with h | h <;> cases h

theorem G_noSelfLoop (hd : Dom G) (hun : G.un = []) : NoSelfLoop G := by
  intro a ma mb he
  rcases he with ⟨_, _, h⟩ | ⟨_, _, h⟩ | ⟨_, _, h | h⟩ | ⟨_, _, h⟩
  · exact hd.noloopD a h
  · exact hd.noloopD a h
  · exact hd.noloopB a h
  · exact hd.noloopB a h
  · rw [hun] at h; rcases h with h | h <;> cases h

/-- **T8 (path level).** -/
theorem sigmaConn_iff_mConn (hd : Dom G) (hun : G.un = []) (hacy : IsAcyclification G A)
    {Z : List Nat} (hZ : ∀ z ∈ Z, z ∈ G.nodes) {x y : Nat} (hx : x ∉ Z) (hy : y ∉ Z) :
    SigmaConnPath G Z x y ↔ MConnPath A Z x y := by
  have hAwf : A.WF := A_wf hd hun hacy
  have hZA : ∀ z ∈ Z, z ∈ A.nodes := by rw [hacy.nodes]; exact hZ
  have hAb : NoUndirAtHead A := noUndirAtHead_of_un_nil A (by rw [hacy.un, hun])
  have hAsl : NoSelfLoop A := A_noSelfLoop hun hacy
  constructor
  · rintro ⟨hs, hv, hend, _, ho⟩
    have := sig_to_conn hd hun hacy hZ (x := x) hs x none hv ho (by rw [hend]; exact hy) (fun _ => hx)
      (Or.inr ⟨x, SC.refl G x, Conn.start, hx⟩)
    rw [hend] at this
    exact (walk_iff_path hAwf hAb hAsl hZA hx).mp this
  · intro hp
    obtain ⟨m, hc⟩ := (walk_iff_path hAwf hAb hAsl hZA hx).mpr hp
    obtain ⟨e, hcs, _⟩ := acy_to_sig hd hun hacy hZ hc
    obtain ⟨hs, hv, ho, hend, _⟩ := walk_of_connS hcs
    obtain ⟨ps, pv, po, pe, pn⟩ := sigWalk_to_path hun (G_noSelfLoop hd hun) hs none x hv ho
    exact ⟨ps, pv, by rw [pe, hend], pn, po⟩

/-- **T8.** For every directed mixed graph with cycles and bidirected edges, sigma-separation in `G`
    is m-separation in any graph `A` that has the edge characterisation of the acyclification. -/
theorem sigmaSep_iff_mSep (hd : Dom G) (hun : G.un = []) (hacy : IsAcyclification G A)
    (X Y Z : List Nat) (hZ : ∀ z ∈ Z, z ∈ G.nodes) (hXZ : ∀ x ∈ X, x ∉ Z) (hYZ : ∀ y ∈ Y, y ∉ Z) :
    SigmaSep G X Y Z ↔ MSep A X Y Z := by
  unfold SigmaSep MSep
  constructor
  · intro h x hx y hy hp
    exact h x hx y hy ((sigmaConn_iff_mConn hd hun hacy hZ (hXZ x hx) (hYZ y hy)).mpr hp)
  · intro h x hx y hy hp
    exact h x hx y hy ((sigmaConn_iff_mConn hd hun hacy hZ (hXZ x hx) (hYZ y hy)).mp hp)

/-- **C19 (second sentence), unconditional.** The model of `sigma_separated` (acyclify with the
    components visited in any admissible order, then `m_separated`) answers `true` exactly when every
    path between X and Y is sigma-blocked by Z. -/
theorem sigmaSeparated_spec {order : List Nat} (hd : Dom G) (hun : G.un = []) (ho : IsOrder G order)
    (X Y Z : List Nat) (hX : ∀ x ∈ X, x ∈ G.nodes) (hZ : ∀ z ∈ Z, z ∈ G.nodes)
    (hXZ : ∀ x ∈ X, x ∉ Z) (hYZ : ∀ y ∈ Y, y ∉ Z) :
    SigmaSpec (fun G X Y Z => sigmaSeparated G order X Y Z) G X Y Z := by
  have hacy := acy_isAcyclification hd ho
  have hAwf : (acy G order).WF := A_wf hd hun hacy
  unfold SigmaSpec sigmaSeparated
  rw [sigmaSep_iff_mSep hd hun hacy X Y Z hZ hXZ hYZ]
  exact mSeparated_iff_MSep (acy G order) hAwf
    (noUndirAtHead_of_un_nil _ (by rw [hacy.un, hun])) (A_noSelfLoop hun hacy) X Y Z
    (by rw [hacy.nodes]; exact hX) (by rw [hacy.nodes]; exact hZ) hXZ

end C19
