import Pw.T2.Moral
open Closure

/-! # T2, part 4: m-separation = vertex cut in the moral graph of the anterior subgraph -/
namespace MG

theorem openW_iff_openP {Z anZ : List Nat} : ∀ (hs : List Hop) (e : Option Mark) (a : Nat),
    OpenW Z anZ e a hs ↔ OpenP (· ∈ anZ) Z e a hs
  | [], _, _ => by simp [OpenW, OpenP]
  | h :: t, none, a => by
    simp only [OpenW, OpenP, condE, condPO]; rw [openW_iff_openP t _ _]
  | h :: t, some m, a => by
    simp only [OpenW, OpenP, condE, condAt, condPO, condP]; rw [openW_iff_openP t _ _]

/-- a `Conn` derivation arriving through an arrowhead ends with an edge into the node -/
theorem Conn.has_head {G : MG} {Z anZ : List Nat} {x v : Nat} (h : Conn G Z anZ x v .head) :
    ∃ p mp, HasEdge G p v mp .head := by
  generalize hm : Mark.head = m at h
  cases h with
  | start => cases hm
  | @step u w m0 mv mw _ he _ => subst hm; exact ⟨u, mv, he⟩

/-- follow a directed path downwards, all of whose nodes are outside Z -/
theorem conn_down {G : MG} {Z anZ : List Nat} {x : Nat} {v t : Nat} (ha : Anc G v t) :
    (∀ d, Anc G v d → d ∉ Z) → ∀ m, Conn G Z anZ x v m → ∃ m', Conn G Z anZ x t m' := by
  induction ha with
  | refl => intro _ m hc; exact ⟨m, hc⟩
  | @step a b c e _ ih =>
    intro hz m hc
    have hstep : Conn G Z anZ x b .head :=
      Conn.step hc (Or.inl ⟨rfl, rfl, e⟩ : HasEdge G a b .tail .head)
        (by simp; exact hz a (Anc.refl a))
    exact ih (fun d hd => hz d (Anc.step e hd)) .head hstep

/-- climb a directed path upwards from its bottom end `t`, all of whose nodes are outside Z -/
theorem conn_up {G : MG} {Z anZ : List Nat} {v t : Nat} (ha : Anc G v t) :
    (∀ d, Anc G v d → d ∉ Z) → Conn G Z anZ t v .tail := by
  induction ha with
  | refl => intro _; exact Conn.start
  | @step a b c e _ ih =>
    intro hz
    have hb : Conn G Z anZ c b .tail := ih (fun d hd => hz d (Anc.step e hd))
    exact Conn.step hb (Or.inr (Or.inl ⟨rfl, rfl, e⟩) : HasEdge G b a .head .tail)
      (by simp; exact hz b (Anc.step e (Anc.refl b)))

/-- Claim B: a semi-open walk inside the anterior set, prefixed by an open walk from X, yields an
    open walk between X and Y (colliders outside An(Z) are by-passed along directed paths). -/
theorem open_of_semiOpen {G : MG} (hwf : G.WF) (hb : NoUndirAtHead G) {X Y Z : List Nat}
    (hZ : ∀ z ∈ Z, z ∈ G.nodes) (hXZ : ∀ x ∈ X, x ∉ Z) :
    ∀ (S : List Hop) (v : Nat) (m : Mark) (x' : Nat), x' ∈ X → Conn G Z (G.anc Z) x' v m →
      ValidW G v S → OpenP Tr Z (some m) v S → (∀ w ∈ nodesOf v S, InAnt G (X ++ Y ++ Z) w) →
      endNode v S ∈ Y → ∃ x'' ∈ X, ∃ y'' ∈ Y, ∃ m'', Conn G Z (G.anc Z) x'' y'' m''
  | [], v, m, x', hx', hc, _, _, _, hy => ⟨x', hx', v, hy, m, hc⟩
  | h :: t, v, m, x', hx', hc, hv, ho, hA, hy => by
    obtain ⟨hv1, hv2⟩ := hv
    obtain ⟨ho1, ho2⟩ := ho
    have htA : ∀ w ∈ nodesOf h.nx t, InAnt G (X ++ Y ++ Z) w := by
      intro w hw
      apply hA w
      simp only [nodesOf, List.map_cons, List.mem_cons] at hw ⊢
      exact Or.inr hw
    simp only [endNode] at hy
    by_cases hcol : m = .head ∧ h.mp = .head
    · by_cases hvan : v ∈ G.anc Z
      · exact open_of_semiOpen hwf hb hZ hXZ t h.nx h.mn x' hx'
          (Conn.step hc hv1 (by simp only [hcol, and_self, if_true]; exact hvan)) hv2 ho2 htA hy
      · -- collider outside An(Z): by-pass along a directed path to X or Y
        obtain ⟨hm, _⟩ := hcol
        subst hm
        obtain ⟨tt, htt, hant⟩ := hA v (by simp [nodesOf])
        have hanc : Anc G v tt := hant.anc_of_head hb hc.has_head
        have hnoZ : ∀ d, Anc G v d → d ∉ Z := by
          intro d hd hdZ
          exact hvan ((mem_anc hwf hZ).mpr ⟨d, hdZ, hd⟩)
        rcases List.mem_append.mp htt with htt | htt
        · rcases List.mem_append.mp htt with htt | htt
          · -- lands in X: restart from tt, climb to v, continue
            have hup : Conn G Z (G.anc Z) tt v .tail := conn_up hanc hnoZ
            exact open_of_semiOpen hwf hb hZ hXZ t h.nx h.mn tt htt
              (Conn.step hup hv1 (by simp; exact hnoZ v (Anc.refl v))) hv2 ho2 htA hy
          · -- lands in Y: finish there
            obtain ⟨m', hc'⟩ := conn_down hanc hnoZ .head hc
            exact ⟨x', hx', tt, htt, m', hc'⟩
        · exact absurd htt (hnoZ tt hanc)
    · have hvZ : v ∉ Z := by
        simp only [condPO, condP, hcol, if_false] at ho1
        exact ho1
      exact open_of_semiOpen hwf hb hZ hXZ t h.nx h.mn x' hx'
        (Conn.step hc hv1 (by simp only [hcol, if_false]; exact hvZ)) hv2 ho2 htA hy

/-- the anterior set of X ∪ Y ∪ Z -/
abbrev AntSet (G : MG) (X Y Z : List Nat) : Nat → Prop := InAnt G (X ++ Y ++ Z)

/-- **T2 (walk level).** An m-connecting walk between X and Y exists iff Y is reachable from X, avoiding
    Z, in the moral graph of the subgraph induced by the anterior set of X ∪ Y ∪ Z. -/
theorem conn_iff_hconn {G : MG} (hwf : G.WF) (hb : NoUndirAtHead G) {X Y Z : List Nat}
    (hZ : ∀ z ∈ Z, z ∈ G.nodes) (hXZ : ∀ x ∈ X, x ∉ Z) (hYZ : ∀ y ∈ Y, y ∉ Z) :
    (∃ x ∈ X, ∃ y ∈ Y, ∃ m, Conn G Z (G.anc Z) x y m) ↔
      (∃ x ∈ X, ∃ y ∈ Y, HConn G (AntSet G X Y Z) Z x y) := by
  have hxA : ∀ x ∈ X, AntSet G X Y Z x := fun x hx =>
    ⟨x, List.mem_append_left _ (List.mem_append_left _ hx), Ant.refl x⟩
  have hyA : ∀ y ∈ Y, AntSet G X Y Z y := fun y hy =>
    ⟨y, List.mem_append_left _ (List.mem_append_right _ hy), Ant.refl y⟩
  have hanA : ∀ v, v ∈ G.anc Z → AntSet G X Y Z v := by
    intro v hv
    obtain ⟨z, hz, ha⟩ := (mem_anc hwf hZ).mp hv
    exact ⟨z, List.mem_append_right _ hz, Ant.of_anc ha⟩
  constructor
  · rintro ⟨x, hx, y, hy, m, hc⟩
    obtain ⟨hs, hv, ho, hend, _⟩ := walk_of_conn hc
    have hoP := (openW_iff_openP hs none x).mp ho
    have hall := all_inAnt hb hanA hs x hv hoP (hxA x hx) (by rw [hend]; exact hyA y hy)
    have hsemi : OpenP Tr Z none x hs := OpenP.mono (fun _ _ => trivial) hs none x hoP
    have := hconn_of_semiOpen (A := AntSet G X Y Z) hs x x [] trivial rfl trivial
      (by intro w hw; simp [nodesOf] at hw; rw [hw]; exact hxA x hx) hv hsemi hall
      (by rw [hend]; exact hYZ y hy)
    rw [hend] at this
    exact ⟨x, hx, y, hy, this⟩
  · rintro ⟨x, hx, y, hy, hh⟩
    obtain ⟨hs, hv, hend, ho, hall⟩ := semiOpen_of_hconn hh (hxA x hx)
    exact open_of_semiOpen hwf hb hZ hXZ hs x .tail x hx Conn.start hv
      (openP_of_none (hXZ x hx) trivial hs _ ho) hall (by rw [hend]; exact hy)

/-- **T2.** On the domain of C01: X and Y are m-separated given Z iff Z separates them, as an ordinary
    vertex cut, in the moral graph of the subgraph induced by the anterior closure of X ∪ Y ∪ Z. -/
theorem mSep_iff_moral_cut (G : MG) (hwf : G.WF) (hb : NoUndirAtHead G) (hsl : NoSelfLoop G)
    (X Y Z : List Nat) (hZ : ∀ z ∈ Z, z ∈ G.nodes) (hXZ : ∀ x ∈ X, x ∉ Z) (hYZ : ∀ y ∈ Y, y ∉ Z) :
    MSep G X Y Z ↔ ¬ ∃ x ∈ X, ∃ y ∈ Y, HConn G (AntSet G X Y Z) Z x y := by
  rw [← conn_iff_hconn hwf hb hZ hXZ hYZ]
  unfold MSep
  constructor
  · rintro h ⟨x, hx, y, hy, hm⟩
    exact h x hx y hy ((walk_iff_path hwf hb hsl hZ (hXZ x hx)).mp hm)
  · intro h x hx y hy hp
    exact h ⟨x, hx, y, hy, (walk_iff_path hwf hb hsl hZ (hXZ x hx)).mpr hp⟩

end MG
