import Pw.T3.Basic
open Closure

/-! # T3, part 2: undirected components ("buckets") of a closed PDAG

Parents from outside a bucket are parents of the whole bucket; no v-structure of `G` has its collider
and one tail in the same bucket. -/
namespace T3
open C08 MG

variable {G D : MG}

inductive UnConn (G : MG) : Nat → Nat → Prop
  | refl (a : Nat) : UnConn G a a
  | snoc {a b c : Nat} : UnConn G a b → HasUn G b c → UnConn G a c

theorem UnConn.trans {a b c : Nat} (h1 : UnConn G a b) (h2 : UnConn G b c) : UnConn G a c := by
  induction h2 with
  | refl => exact h1
  | snoc _ e ih => exact UnConn.snoc ih e

theorem UnConn.single {a b : Nat} (h : HasUn G a b) : UnConn G a b := UnConn.snoc (UnConn.refl a) h

theorem UnConn.symm {a b : Nat} (h : UnConn G a b) : UnConn G b a := by
  induction h with
  | refl => exact UnConn.refl _
  | snoc _ e ih => exact (UnConn.single e.symm).trans ih

/-- a parent of `z` that is not an undirected neighbour of `z'`, where `z - z'`, is a parent of `z'` -/
theorem Ctx.parent_step (h : Ctx G D) {y z z' : Nat} (e : (y, z) ∈ G.dir) (hu : HasUn G z z')
    (hn : ¬ HasUn G y z') : (y, z') ∈ G.dir := by
  rcases skel_cases (h.r1 e hu) with h1 | h1 | h1
  · exact h1
  · exact absurd hu.symm (h.r2 h1 e)
  · exact absurd h1 hn

/-- **uniform parents**: a parent from outside the bucket is a parent of the whole bucket -/
theorem Ctx.parent_bucket (h : Ctx G D) {y z z' : Nat} (e : (y, z) ∈ G.dir) (hy : ¬ UnConn G z y)
    (hz : UnConn G z z') : (y, z') ∈ G.dir := by
  induction hz with
  | refl => exact e
  | @snoc b c hzb hbc ih =>
    exact h.parent_step ih hbc fun hyc => hy ((hzb.snoc hbc).snoc hyc.symm)

/-- a v-structure `p -> x <- p'` moves along an undirected edge `x - u` -/
theorem Ctx.vstruct_step (h : Ctx G D) {p x p' u : Nat} (hv : C08.VStruct G p x p') (hu : HasUn G x u) :
    C08.VStruct G p u p' := by
  obtain ⟨h1, h2, hne, hna⟩ := hv
  have key : ∀ q, (q, x) ∈ G.dir → (q, u) ∈ G.dir ∨ HasUn G q u := by
    intro q hq
    rcases skel_cases (h.r1 hq hu) with a | a | a
    · exact Or.inl a
    · exact absurd hu.symm (h.r2 a hq)
    · exact Or.inr a
  rcases key p h1 with a | a <;> rcases key p' h2 with b | b
  · exact ⟨a, b, hne, hna⟩
  · exact absurd (h.r1 a b.symm) hna
  · exact absurd (h.r1 b a.symm).symm hna
  · exact absurd hu.symm (h.r3 hne a.symm b.symm h1 h2 hna)

/-- **no v-structure inside a bucket** -/
theorem Ctx.no_vstruct_bucket (h : Ctx G D) {p x p' : Nat} (hv : C08.VStruct G p x p')
    (hc : UnConn G x p) : False := by
  have : ∀ u, UnConn G x u → C08.VStruct G p u p' := by
    intro u hu
    induction hu with
    | refl => exact hv
    | snoc _ e ih => exact h.vstruct_step ih e
  exact h.irrefl p (skel_of_dir (this p hc).1)

end T3
