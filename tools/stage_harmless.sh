#!/bin/bash
# usage: tools/stage_harmless.sh h10 h11 ...  — copy /tmp/mut/out/<h>_<i>/{patch.diff,meta.json} to harmless/<h>-<i>
cd /verif
for h in "$@"; do for i in 1 2 3 4 5 6; do
  src=/tmp/mut/out/${h}_$i; [ -f $src/patch.diff ] || continue
  mkdir -p harmless/$h-$i; cp $src/patch.diff $src/meta.json harmless/$h-$i/
done; done
