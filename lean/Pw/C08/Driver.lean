import Pw.Core.Proto
import Pw.C08.Dec
open Proto

namespace C08
/-- inner (set) iteration order: `J=` if given, else ascending node labels -/
def innerOf (a : Args) (G : MG) : List Nat := if a.has "J" then a.nats "J" else sortNats G.nodes

/-- `c08meek N=.. D= U= [J=]` → canonical graph after the closure -/
def hMeek : Handler := fun a =>
  let G := a.graph
  fmtGraph (meek G (innerOf a G))

/-- `c08rule r=1..4 i= j= N=.. D= U= [J=]` → `T|F <graph>` -/
def hRule : Handler := fun a =>
  let G := a.graph
  let inner := innerOf a G
  let i := a.nat "i"
  let j := a.nat "j"
  let r := match a.nat "r" with
    | 1 => rule1 G i j
    | 2 => rule2 G i j
    | 3 => rule3 G inner i j
    | _ => rule4 G inner i j
  fmtBool r.2 ++ " " ++ fmtGraph r.1

/-- `c08comp N=.. D= U=` → `ext=<number of consistent extensions> comp=<compelled orientations>` -/
def hComp : Handler := fun a =>
  let G := a.graph
  "ext=" ++ toString (extsDec G).length ++ " comp=" ++ fmtDirSet (compelledUn G)

def hPattern : Handler := fun a => fmtGraph (patternOf a.graph)
def hEss : Handler := fun a => fmtGraph (essentialDec a.graph)

def handlers : List (String × Handler) :=
  [("c08meek", hMeek), ("c08rule", hRule), ("c08comp", hComp), ("c08pattern", hPattern), ("c08ess", hEss)]
end C08
