import Pw.C19.Scc
open Closure MG

/-! # C19: what the component loop writes -/
namespace C19

theorem mem_scompParents {G0 : MG} {c : List Nat} {p : Nat} :
    p ∈ scompParents G0 c ↔ p ∉ c ∧ ∃ k ∈ c, (p, k) ∈ G0.dir := by
  simp only [scompParents, List.mem_filter, List.mem_flatMap, mem_parents, decide_eq_true_eq]
  constructor
  · rintro ⟨h, hp⟩; exact ⟨hp, h⟩
  · rintro ⟨hp, h⟩; exact ⟨h, hp⟩

theorem mem_scompCC {G0 : MG} {c : List Nat} {i : Nat} :
    i ∈ scompCC G0 c ↔ ∃ s, s ∉ c ∧ (∃ k ∈ c, (k, s) ∈ G0.bi ∨ (s, k) ∈ G0.bi) ∧ i ∈ sc G0 s := by
  simp only [scompCC, List.mem_filter, List.mem_flatMap, spouses, mem_sym, decide_eq_true_eq]
  constructor
  · rintro ⟨s, ⟨h, hs⟩, hi⟩; exact ⟨s, hs, h, hi⟩
  · rintro ⟨s, hs, h, hi⟩; exact ⟨s, ⟨h, hs⟩, hi⟩

theorem mem_intra {G0 : MG} {c : List Nat} {e : Nat × Nat} :
    e ∈ intra G0 c ↔ e.1 ∈ c ∧ e.2 ∈ c ∧ e ∈ G0.dir := by
  obtain ⟨u, v⟩ := e
  simp only [intra, List.mem_flatMap, List.mem_map, List.mem_filter, mem_children, decide_eq_true_eq,
    Prod.mk.injEq]
  constructor
  · rintro ⟨a, ha, b, ⟨hb, hbc⟩, rfl, rfl⟩; exact ⟨ha, hbc, hb⟩
  · rintro ⟨hu, hv, he⟩; exact ⟨u, hu, v, ⟨he, hv⟩, rfl, rfl⟩

theorem mem_complete {c : List Nat} {e : Nat × Nat} :
    e ∈ complete c ↔ e.1 ∈ c ∧ e.2 ∈ c ∧ e.2 ≠ e.1 := by
  obtain ⟨u, v⟩ := e
  simp only [complete, List.mem_flatMap, List.mem_map, List.mem_filter, decide_eq_true_eq,
    Prod.mk.injEq]
  constructor
  · rintro ⟨a, ha, b, ⟨hb, hne⟩, rfl, rfl⟩; exact ⟨ha, hb, hne⟩
  · rintro ⟨hu, hv, hne⟩; exact ⟨u, hu, v, ⟨hv, hne⟩, rfl, rfl⟩

theorem mem_fan {c ps : List Nat} {e : Nat × Nat} :
    e ∈ c.flatMap (fun v => ps.map (·, v)) ↔ e.2 ∈ c ∧ e.1 ∈ ps := by
  obtain ⟨u, v⟩ := e
  simp only [List.mem_flatMap, List.mem_map, Prod.mk.injEq]
  constructor
  · rintro ⟨a, ha, b, hb, rfl, rfl⟩; exact ⟨ha, hb⟩
  · rintro ⟨hv, hu⟩; exact ⟨v, hv, u, hu, rfl, rfl⟩

/-- the loop removes `e` while processing `c` -/
def IntraD (G0 : MG) (c : List Nat) (e : Nat × Nat) : Prop := ¬ c.length ≤ 1 ∧ e ∈ intra G0 c
/-- the loop adds the directed edge `e` while processing `c` -/
def AddedD (G0 : MG) (c : List Nat) (e : Nat × Nat) : Prop :=
  ¬ c.length ≤ 1 ∧ e.2 ∈ c ∧ e.1 ∈ scompParents G0 c
/-- the loop adds the bidirected edge `e` while processing `c` -/
def AddedB (G0 : MG) (c : List Nat) (e : Nat × Nat) : Prop :=
  ¬ c.length ≤ 1 ∧ (e ∈ complete c ∨ (e.2 ∈ c ∧ e.1 ∈ scompCC G0 c))

theorem procComp_dir (G0 H : MG) (c : List Nat) (e : Nat × Nat) :
    e ∈ (procComp G0 H c).dir ↔ (e ∈ H.dir ∧ ¬ IntraD G0 c e) ∨ AddedD G0 c e := by
  unfold procComp IntraD AddedD
  by_cases hl : c.length ≤ 1
  · simp [hl]
  · simp only [hl, if_false, List.mem_append, List.mem_filter, mem_fan, decide_eq_true_eq,
      not_false_eq_true, true_and]

theorem procComp_bi (G0 H : MG) (c : List Nat) (e : Nat × Nat) :
    e ∈ (procComp G0 H c).bi ↔ e ∈ H.bi ∨ AddedB G0 c e := by
  unfold procComp AddedB
  by_cases hl : c.length ≤ 1
  · simp [hl]
  · simp only [hl, if_false, List.mem_append, mem_fan, not_false_eq_true, true_and, or_assoc]

theorem procComp_nodes (G0 H : MG) (c : List Nat) : (procComp G0 H c).nodes = H.nodes := by
  unfold procComp; split <;> rfl
theorem procComp_un (G0 H : MG) (c : List Nat) : (procComp G0 H c).un = H.un := by
  unfold procComp; split <;> rfl
theorem procComp_circ (G0 H : MG) (c : List Nat) : (procComp G0 H c).circ = H.circ := by
  unfold procComp; split <;> rfl

theorem foldl_nodes (G0 : MG) : ∀ (cs : List (List Nat)) (H : MG),
    (cs.foldl (procComp G0) H).nodes = H.nodes
  | [], _ => rfl
  | c :: cs, H => by rw [List.foldl_cons, foldl_nodes G0 cs, procComp_nodes]
theorem foldl_un (G0 : MG) : ∀ (cs : List (List Nat)) (H : MG),
    (cs.foldl (procComp G0) H).un = H.un
  | [], _ => rfl
  | c :: cs, H => by rw [List.foldl_cons, foldl_un G0 cs, procComp_un]
theorem foldl_circ (G0 : MG) : ∀ (cs : List (List Nat)) (H : MG),
    (cs.foldl (procComp G0) H).circ = H.circ
  | [], _ => rfl
  | c :: cs, H => by rw [List.foldl_cons, foldl_circ G0 cs, procComp_circ]

/-- bidirected layer after the loop: nothing is ever removed -/
theorem foldl_bi (G0 : MG) : ∀ (cs : List (List Nat)) (H : MG) (e : Nat × Nat),
    e ∈ (cs.foldl (procComp G0) H).bi ↔ e ∈ H.bi ∨ ∃ c ∈ cs, AddedB G0 c e
  | [], H, e => by simp
  | c :: cs, H, e => by
    rw [List.foldl_cons, foldl_bi G0 cs, procComp_bi]
    simp only [List.mem_cons, exists_eq_or_imp, or_assoc]

/-- directed layer after the loop, provided no edge written for one component is an inner edge of
    another one (true for strongly connected components, which are disjoint) -/
theorem foldl_dir (G0 : MG) : ∀ (cs : List (List Nat)) (H : MG)
    (_ : ∀ c ∈ cs, ∀ c' ∈ cs, ∀ e, AddedD G0 c e → ¬ IntraD G0 c' e) (e : Nat × Nat),
    e ∈ (cs.foldl (procComp G0) H).dir ↔
      (e ∈ H.dir ∧ ∀ c ∈ cs, ¬ IntraD G0 c e) ∨ ∃ c ∈ cs, AddedD G0 c e
  | [], H, _, e => by simp
  | c :: cs, H, hyp, e => by
    have hyp' : ∀ c ∈ cs, ∀ c' ∈ cs, ∀ e, AddedD G0 c e → ¬ IntraD G0 c' e :=
      fun a ha b hb => hyp a (List.mem_cons_of_mem _ ha) b (List.mem_cons_of_mem _ hb)
    rw [List.foldl_cons, foldl_dir G0 cs _ hyp', procComp_dir]
    constructor
    · rintro (⟨(⟨h1, h2⟩ | h1), h3⟩ | ⟨c', hc', h⟩)
      · left
        refine ⟨h1, ?_⟩
        intro a ha
        rcases List.mem_cons.mp ha with rfl | ha
        · exact h2
        · exact h3 a ha
      · exact Or.inr ⟨c, List.mem_cons_self, h1⟩
      · exact Or.inr ⟨c', List.mem_cons_of_mem _ hc', h⟩
    · rintro (⟨h1, h2⟩ | ⟨c', hc', h⟩)
      · exact Or.inl ⟨Or.inl ⟨h1, h2 c List.mem_cons_self⟩, fun a ha => h2 a (List.mem_cons_of_mem _ ha)⟩
      · rcases List.mem_cons.mp hc' with rfl | hc'
        · exact Or.inl ⟨Or.inr h, fun a ha => hyp c' List.mem_cons_self a (List.mem_cons_of_mem _ ha) e h⟩
        · exact Or.inr ⟨c', hc', h⟩

end C19
