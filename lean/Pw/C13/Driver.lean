import Pw.Core.Proto
import Pw.C13.Spec
import Pw.C13.OrientModel
open Proto

/-! driver requests of C13

`c13run cls=pag m=2 ops=ae:0:0.-1:1.0;ml:3;cp`  → one `ok|<state>` / `err|<state>` per operation, `;`-separated
`c13crun m=2 ops=ae:1:0.-1:1.0;ou:1.0:0.-1;cp`  → the same for a StationaryTimeSeriesCPDAG history that may
   contain `ou:<u>:<v>` = `orient_uncertain_edge(u, v)` (model `C13.crun`); `pre=<ops>` is run first, unreported
`c13inv kinds=d,c,u,u m=2 N=0.0,0.1 L=0.1>1.0,0.2>1.1|||`  → `T` / `F` (`stationaryDec` on an observed state)

nodes in operations: `<var>.<time index>`; nodes in states: `<var>.<lag>` -/
namespace C13

def cfgOf (s : String) : Option Cfg :=
  match s with
  | "graph" => some cfgGraph
  | "digraph" => some cfgDigraph
  | "mixed" => some cfgMixed
  | "cpdag" => some cfgCpdag
  | "pag" => some cfgPag
  | _ => none

def parseTNode (s : String) : Option TNode :=
  match s.splitOn "." with
  | [x, t] => match x.toNat?, t.toInt? with
    | some x, some t => some (x, t)
    | _, _ => none
  | _ => none

def parseSel (s : String) : Option Sel :=
  if s == "*" then some .all else s.toNat?.map .one

def parseTEdge (s : String) : Option (TNode × TNode) :=
  match s.splitOn ">" with
  | [u, v] => match parseTNode u, parseTNode v with
    | some u, some v => some (u, v)
    | _, _ => none
  | _ => none

def parseTEdges (s : String) : List (TNode × TNode) :=
  ((s.splitOn "+").filter (· ≠ "")).filterMap parseTEdge

def parseOp (s : String) : Option Op :=
  match s.splitOn ":" with
  | ["ae", l, u, v] => match parseSel l, parseTNode u, parseTNode v with
    | some l, some u, some v => some (.addEdge l u v)
    | _, _, _ => none
  | ["re", l, u, v] => match parseSel l, parseTNode u, parseTNode v with
    | some l, some u, some v => some (.removeEdge l u v)
    | _, _, _ => none
  | ["ab", l, es] => (parseSel l).map fun l => .addEdges l (parseTEdges es)
  | ["rb", l, es] => (parseSel l).map fun l => .removeEdges l (parseTEdges es)
  | ["av", x] => x.toNat?.map .addVar
  | ["rv", x] => x.toNat?.map .removeVar
  | ["ml", k] => k.toInt?.map .setMaxLag
  | ["cp"] => some .copy
  | _ => none

def nodeLe (a b : Node) : Bool := a.1 < b.1 || (a.1 == b.1 && a.2 ≤ b.2)
def edgeLe (e f : Edge) : Bool :=
  if e.1 == f.1 then nodeLe e.2 f.2 else nodeLe e.1 f.1

def fmtNode (n : Node) : String := toString n.1 ++ "." ++ toString n.2
def fmtEdge (e : Edge) : String := fmtNode e.1 ++ ">" ++ fmtNode e.2
def fmtNodes (l : List Node) : String := ",".intercalate ((l.eraseDups.mergeSort nodeLe).map fmtNode)
def fmtEdges (l : List Edge) : String := ",".intercalate ((l.eraseDups.mergeSort edgeLe).map fmtEdge)

def fmtState (s : St) : String :=
  "m=" ++ toString s.maxLag ++ "/N=" ++ fmtNodes s.nodes ++ "/L=" ++
    "|".intercalate (s.layers.map fun L => fmtEdges L.edges)

def handleRun : Handler := fun a =>
  match cfgOf (a.get "cls") with
  | none => "bad-class"
  | some cfg =>
    let opsS := ((a.get "ops").splitOn ";").filter (· ≠ "")
    let ops := opsS.filterMap parseOp
    if ops.length ≠ opsS.length then "bad-op" else
    let rs := run cfg (init cfg (a.nat "m")) ops
    ";".intercalate (rs.map fun r => (if r.2 then "err|" else "ok|") ++ fmtState r.1)

def parseCOp (s : String) : Option COp :=
  match s.splitOn ":" with
  | ["ou", u, v] => match parseTNode u, parseTNode v with
    | some u, some v => some (.orient u v)
    | _, _ => none
  | _ => (parseOp s).map .op

/-- CPDAG histories with `orient_uncertain_edge` -/
def handleCRun : Handler := fun a =>
  let split := fun (k : String) => ((a.get k).splitOn ";").filter (· ≠ "")
  let preS := split "pre"
  let opsS := split "ops"
  let pre := preS.filterMap parseCOp
  let ops := opsS.filterMap parseCOp
  if ops.length ≠ opsS.length || pre.length ≠ preS.length then "bad-op" else
  let s0 := pre.foldl (fun s op => (cstep s op).1) (init cfgCpdag (a.nat "m"))
  let rs := crun s0 ops
  ";".intercalate (rs.map fun r => (if r.2 then "err|" else "ok|") ++ fmtState r.1)

def parseNode (s : String) : Option Node :=
  match s.splitOn "." with
  | [x, t] => match x.toNat?, t.toNat? with
    | some x, some t => some (x, t)
    | _, _ => none
  | _ => none

def parseEdge (s : String) : Option Edge :=
  match s.splitOn ">" with
  | [u, v] => match parseNode u, parseNode v with
    | some u, some v => some (u, v)
    | _, _ => none
  | _ => none

def parseKind (s : String) : Option Kind :=
  match s with
  | "d" => some .dir
  | "c" => some .circ
  | "u" => some .und
  | _ => none

/-- the verified decider of the property, applied to a state observed on the implementation -/
def handleInv : Handler := fun a =>
  let kinds := ((a.get "kinds").splitOn ",").filterMap parseKind
  let nodes := ((a.get "N").splitOn ",").filterMap parseNode
  let layersS := (a.get "L").splitOn "|"
  if layersS.length ≠ kinds.length then "bad-layers" else
  let layers := (kinds.zip layersS).map fun (k, es) => (⟨k, (es.splitOn ",").filterMap parseEdge⟩ : Layer)
  fmtBool (stationaryDec ⟨nodes, a.nat "m", layers⟩)

def handlers : List (String × Handler) := [("c13run", handleRun), ("c13crun", handleCRun), ("c13inv", handleInv)]
end C13
