import Pw.C18.DiscComplete

/-! # C18: completeness of `uncovered_pd_path` on triangle-free skeletons (partial result)

The search explores each node once although the admissibility of a step `this → next` depends on the
node `this` was entered from (the triple `prev, this, next` must be unshielded), so completeness fails
in general (`uncovPdPath_incomplete`).  If the skeleton has no triangle, a triple of consecutive
adjacent nodes is never shielded, the dependence on `prev` disappears (except for `first_node`, which
only concerns the start node) and the search is complete. -/
namespace C18

/-- no three pairwise adjacent nodes -/
def TriangleFree (G : MG) : Prop :=
  ∀ x y z, adj G x y = true → adj G y z = true → adj G x z = true → False

/-- every potentially directed two-edge path `x → y → z` is unshielded (weaker than triangle-freeness) -/
def NoShieldedPd (G : MG) (fc : Bool) : Prop :=
  ∀ x y z, pdEdge G fc x y = true → pdEdge G fc y z = true → adj G x z = false

theorem noShieldedPd_of_triangleFree {G : MG} (hT : TriangleFree G) (fc : Bool) : NoShieldedPd G fc := by
  intro x y z h1 h2
  cases h3 : adj G x z with
  | false => rfl
  | true => exact (hT x y z (pdEdge_adj h1) (pdEdge_adj h2) h3).elim

theorem inner_lookup_stable {cls : Option Nat → Nat → Nat → Cls} (this : Nat) (prev : Option Nat) :
    ∀ (l : List Nat) (s : St) (x : Nat), x ∈ s.explored →
      (inner cls this prev l s).desc.lookup x = s.desc.lookup x := by
  intro l
  induction l with
  | nil => intro s x _; simp [inner]
  | cons next rest ih =>
    intro s x h
    unfold inner
    split
    · exact ih s x h
    · rename_i hex
      have hne : x ≠ next := fun e => hex (e ▸ h)
      split
      · exact ih s x h
      · exact lookup_cons_ne hne
      · rw [ih _ x (List.mem_cons_of_mem _ h)]; exact lookup_cons_ne hne

theorem loop_lookup_stable {cls : Option Nat → Nat → Nat → Cls} {iter : Nat → List Nat} (cont : Bool) :
    ∀ (fuel : Nat) (s : St) (x : Nat), x ∈ s.explored →
      (loop iter cls cont fuel s).desc.lookup x = s.desc.lookup x := by
  intro fuel
  induction fuel with
  | zero => intro s x _; unfold loop; split <;> rfl
  | succ n ih =>
    intro s x h
    unfold loop
    cases hq : s.queue with
    | nil => rfl
    | cons this q =>
      simp only
      have h1 := inner_lookup_stable (cls := cls) this (s.desc.lookup this) (iter this) { s with queue := q } x h
      have h2 := inner_explored_mono (cls := cls) this (s.desc.lookup this) (iter this) { s with queue := q } x h
      split
      · exact h1
      · rw [ih _ x h2]; exact h1

/-- the reconstruction succeeds on a state that satisfies the soundness invariant -/
theorem uncovFinish_found {G : MG} {q : Query} {s : St}
    (hi : Inv (q.first.getD q.u) (UPre G q) (UncovPd G q) s) (hf : s.found = true) (hl : s.limit = false) :
    ∃ p, p ≠ [] ∧ uncovFinish q s = .ok (p, true) := by
  unfold uncovFinish
  rw [if_neg (by simp [hl]), if_pos hf]
  obtain ⟨e, _, l, htr, hQ, _, hlen⟩ := hi.fin hf
  have he : e = q.c := by
    have h1 := htr.last; rw [hQ.last] at h1; injection h1 with h1; exact h1.symm
  subst he
  rw [recon_of_Tr htr _ [] (by omega)]
  exact ⟨_, by simpa using htr.ne_nil, rfl⟩

/-- nodes explored from the beginning that are never processed -/
def uInit (q : Query) : List Nat :=
  optList q.first ++ (match q.second with | some _ => [q.u] | none => [])

theorem pdEdge_irrefl {G : MG} (hS : Simple G) {fc : Bool} {x : Nat} : pdEdge G fc x x = false := by
  rw [← pdCode_eq_pdEdge hS]; exact pdCode_irrefl hS

/-- **Completeness of `uncovered_pd_path` when no potentially-directed two-edge path is shielded**
    (partial result; the general statement is false, see `uncovPdPath_complete_false`).  For every
    graph of the domain in which `x → y → z` potentially directed implies x, z non-adjacent, every
    faithful neighbour iteration order, every admissible query (arguments are nodes, not both first
    and second node, `first_node ≠ u`): if an uncovered pd path for the query exists, the model returns
    `found = True` with such a path. -/
theorem uncovPdPath_complete_noShield (G : MG) (hS : Simple G) (hW : WFG G)
    (q : Query) (hN : NoShieldedPd G q.fc) (nb : Nat → List Nat) (hnb : ∀ x y, y ∈ nb x ↔ adj G x y = true)
    (hfu : q.first ≠ some q.u) (hg : uncovGuard G q = false) (maxLen : Nat)
    (hlen : G.nodes.length < maxLen) (hex : ∃ p, UncovPd G q p) :
    ∃ p, uncovPdPath G nb q maxLen = .ok (p, true) ∧ UncovPd G q p := by
  obtain ⟨p0, hp0⟩ := hex
  obtain ⟨htake, hhead, hclast, h2, hnd, hch, hun, hsec, hforb⟩ := hp0
  have hsplit : p0 = q.first.toList ++ p0.drop q.first.toList.length := by
    conv => lhs; rw [← List.take_append_drop q.first.toList.length p0]
    rw [htake]
  generalize p0.drop q.first.toList.length = core at hsplit hhead hclast h2 hch hsec hforb
  -- core = u :: x1 :: rest
  obtain ⟨x1, rest, rfl⟩ : ∃ x1 rest, core = q.u :: x1 :: rest := by
    cases core with
    | nil => simp at h2
    | cons a t =>
      cases t with
      | nil => simp at h2
      | cons b t' => simp at hhead; subst hhead; exact ⟨b, t', rfl⟩
  simp only [chainB, Bool.and_eq_true] at hch
  obtain ⟨hpd01, hchrest⟩ := hch
  simp only [List.getElem?_cons_succ, List.getElem?_cons_zero] at hsec hforb
  have hboth : ¬ (q.first.isSome = true ∧ q.second.isSome = true) := by
    intro ⟨h1, h2⟩; simp [uncovGuard, h1, h2] at hg
  have hu_nodes : q.u ∈ G.nodes := (hW _ _ (pdEdge_adj hpd01)).1
  -- distinctness
  have hnd_core : (q.u :: x1 :: rest).Nodup := by
    rw [hsplit] at hnd; exact (List.nodup_append.mp hnd).2.1
  have hfirst_notin : ∀ f, q.first = some f → f ∉ q.u :: x1 :: rest := by
    intro f hf hmem
    rw [hsplit, hf] at hnd
    exact (List.nodup_append.mp hnd).2.2 f (by simp) f hmem rfl
  have hfirst_sh : ∀ f, q.first = some f → adj G f x1 = false := by
    intro f hf
    rw [hsplit, hf] at hun
    simp [unsh] at hun
    exact hun.1
  have hu_notin : q.u ∉ x1 :: rest := (List.nodup_cons.mp hnd_core).1
  -- secondBad is false
  have hbad : secondBad G q = false := by
    unfold secondBad
    cases hs : q.second with
    | none => rfl
    | some s =>
      have := hsec s hs; injection this with this; subst this
      simp only [Bool.or_eq_false_iff, Bool.not_eq_false']
      refine ⟨by rw [pdCode_eq_pdEdge hS]; exact hpd01, ?_⟩
      cases hf : q.forbid with
      | none => rfl
      | some f => have := hforb f hf; simp at this ⊢; exact fun e => this e.symm
  -- validity of whatever is returned
  have hvalid : ∀ p, uncovPdPath G nb q maxLen = .ok (p, true) → p ≠ [] → UncovPd G q p :=
    fun p h hp => uncovPdPath_sound G hS nb q hfu maxLen p h hp
  by_cases hsc : (q.second == some q.c) = true
  · refine ⟨[q.u, q.c], ?_, ?_⟩
    · unfold uncovPdPath; rw [hg, hbad]; simp [hsc]
    · apply hvalid _ _ (by simp)
      unfold uncovPdPath; rw [hg, hbad]; simp [hsc]
  · have hres : uncovPdPath G nb q maxLen = uncovFinish q (loop nb (uncovCls G q) true maxLen (uncovInit q)) := by
      unfold uncovPdPath; rw [hg, hbad]; simp [hsc]
    have hi := loop_inv (uncov_hpush hS q) (uncov_hfin hS q) nb true maxLen _ (uncovInit_inv hS hfu hg hbad)
    have hlim : (loop nb (uncovCls G q) true maxLen (uncovInit q)).limit = false := by
      refine loop_no_limit_aux (U := G.nodes) nb true (fun x y h => (hW x y ((hnb x y).mp h)).2) maxLen _ rfl ?_
      have : G.nodes.countP (fun x => decide (x ∉ (uncovInit q).explored)) < G.nodes.countP (fun _ => true) := by
        refine Closure.countP_lt' _ _ (by intro _ _; rfl) G.nodes q.u hu_nodes rfl ?_
        simp [uncovInit]
      rw [List.countP_true] at this
      simp only [meas, uncovInit, List.length_cons, List.length_nil] at this ⊢
      omega
    have hend := loop_end (cls := uncovCls G q) (iter := nb) true maxLen (uncovInit q)
    let start := q.second.getD q.u
    have hstart_exp : start ∈ (uncovInit q).explored := by
      simp only [uncovInit, start, optList]
      cases q.second <;> simp
    have hC0 : InvC (uncovCls G q) nb (uInit q) [start] [] (uncovInit q) := by
      refine ⟨?_, (by intro x hx; cases hx), ?_, ?_⟩
      · intro x hx
        simp only [uncovInit, uInit, optList, start] at hx ⊢
        cases hs : q.second with
        | none =>
          rw [hs] at hx; simp at hx ⊢
          rcases hx with h | h
          · exact Or.inl h
          · exact Or.inr h
        | some s =>
          have hf : q.first = none := by
            cases hf : q.first with
            | none => rfl
            | some f => exact absurd ⟨by simp [hf], by simp [hs]⟩ hboth
          rw [hs, hf] at hx; simp [hf] at hx ⊢
          rcases hx with h | h
          · exact Or.inr h
          · exact Or.inl h
      · intro x hx; left; simpa [uncovInit] using hx
      · intro x hx; simp [uncovInit] at hx; rw [hx]; exact hstart_exp
    have hcl := loop_invC (cls := uncovCls G q) (iter := nb) (init := uInit q) (initQ := [start])
      true maxLen (uncovInit q) [] hC0
    have hstart_fin := loop_explored_mono (cls := uncovCls G q) (iter := nb) true maxLen (uncovInit q) start hstart_exp
    have hstart_lk := loop_lookup_stable (cls := uncovCls G q) (iter := nb) true maxLen (uncovInit q) start hstart_exp
    generalize loop nb (uncovCls G q) true maxLen (uncovInit q) = s at hres hi hlim hend hcl hstart_fin hstart_lk
    have hfound : s.found = true := by
      rcases hcl with h | ⟨D, hDv⟩
      · exact h
      · exfalso
        have hq0 : s.queue = [] := by
          simp only at hend
          rcases hend with h | h | h
          · rw [hlim] at h; cases h
          · exact h
          · cases h.1
        -- walking along the path: every node is done, until c would have to be done as well
        have key : ∀ (l : List Nat) (x : Nat), x ∈ D →
            (∀ y, l.head? = some y → ∀ pv, s.desc.lookup x = some pv → adj G pv y = false) →
            (x = q.u → ∀ y, l.head? = some y → q.forbid ≠ some y) →
            chainB (pdEdge G q.fc) (x :: l) = true → (x :: l).Nodup →
            (∀ y ∈ l, y ∉ uInit q ∧ y ≠ start ∧ y ≠ q.u) → (x :: l).getLast? = some q.c →
            x ≠ start ∨ q.c ≠ start → False := by
          intro l
          induction l with
          | nil =>
            intro x hxD _ _ _ _ _ hlast hxs
            simp at hlast; subst hlast
            rcases hDv.pushP _ (Or.inr hxD) with h | ⟨y, _, _, hy⟩
            · simp at h; rcases hxs with h' | h' <;> exact h' h
            · exact (uncovCls_push hy).2.2.2 rfl
          | cons y t ih =>
            intro x hxD hsh hfb hchain hnodup hrest hlast _
            simp only [chainB, Bool.and_eq_true] at hchain
            obtain ⟨hpd, hchain'⟩ := hchain
            have hadj : adj G x y = true := pdEdge_adj hpd
            have hcls : uncovCls G q (s.desc.lookup x) x y ≠ .skip := by
              intro hskip
              unfold uncovCls at hskip
              have c1 : ¬ ((x == q.u && q.forbid == some y) = true) := by
                intro h; simp only [Bool.and_eq_true, beq_iff_eq] at h
                exact hfb h.1 y rfl h.2
              rw [if_neg c1] at hskip
              have c3 : ¬ ((!pdCode G q.fc x y) = true) := by
                rw [pdCode_eq_pdEdge hS, hpd]; simp
              cases hlk : s.desc.lookup x with
              | none =>
                rw [hlk] at hskip; simp only at hskip
                rw [if_neg (by simp), if_neg c3] at hskip
                split at hskip <;> cases hskip
              | some pv =>
                rw [hlk] at hskip; simp only at hskip
                rw [if_neg (by rw [hsh y rfl pv hlk]; simp), if_neg c3] at hskip
                split at hskip <;> cases hskip
            have hyexp : y ∈ s.explored := by
              rcases hDv.closed x hxD y ((hnb x y).mpr hadj) with h | h
              · exact h
              · exact absurd h hcls
            have hyr := hrest y (by simp)
            have hyD : y ∈ D := by
              rcases hDv.prov y hyexp with h | h | h
              · exact absurd h hyr.1
              · rw [hq0] at h; cases h
              · exact h
            have hnodup' := (List.nodup_cons.mp hnodup).2
            refine ih y hyD ?_ (fun e => absurd e hyr.2.2) hchain' hnodup'
              (fun z hz => hrest z (List.mem_cons_of_mem _ hz))
              (by rw [List.getLast?_cons_cons] at hlast; exact hlast) (Or.inl hyr.2.1)
            -- the triple (lookup y, y, z) is unshielded: no triangles
            intro z hz pv hpv
            rcases hDv.pushP y (Or.inr hyD) with h | ⟨w, _, hw, hcw⟩
            · simp at h; exact absurd h hyr.2.1
            · rw [hpv] at hw; injection hw with hw; subst hw
              have h1 : pdEdge G q.fc pv y = true := by
                rw [← pdCode_eq_pdEdge hS]; exact (uncovCls_push hcw).2.2.1
              have h2 : pdEdge G q.fc y z = true := by
                cases t with
                | nil => cases hz
                | cons z' t' =>
                  simp at hz; subst hz
                  simp only [chainB, Bool.and_eq_true] at hchain'
                  exact hchain'.1
              exact hN pv y z h1 h2
        -- start the walk
        have hstartD : start ∈ D := by
          rcases hDv.prov start hstart_fin with h | h | h
          · exfalso
            simp only [uInit, optList, start] at h
            cases hs : q.second with
            | none =>
              rw [hs] at h; simp at h
              cases hf : q.first with
              | none => rw [hf] at h; simp at h
              | some f => rw [hf] at h; simp at h; exact hfu (by rw [hf, h])
            | some s' =>
              have hf : q.first = none := by
                cases hf : q.first with
                | none => rfl
                | some f => exact absurd ⟨by simp [hf], by simp [hs]⟩ hboth
              rw [hs, hf] at h; simp at h
              have := hsec s' hs; injection this with this; subst this
              exact hu_notin (by simp [h])
          · rw [hq0] at h; cases h
          · exact h
        cases hs : q.second with
        | none =>
          -- the walk starts at u
          have hst : start = q.u := by simp [start, hs]
          rw [hst] at hstartD hstart_lk
          refine key (x1 :: rest) q.u hstartD ?_ ?_ (by simp [chainB, hpd01, hchrest]) hnd_core ?_ hclast
            (Or.inr ?_)
          · intro y hy pv hpv
            simp at hy; subst hy
            rw [hstart_lk] at hpv
            simp only [uncovInit, hs] at hpv
            cases hf : q.first with
            | none => rw [hf] at hpv; simp at hpv
            | some f =>
              rw [hf] at hpv; simp [List.lookup_cons] at hpv; subst hpv
              exact hfirst_sh f hf
          · intro _ y hy hfy
            simp at hy; subst hy
            exact hforb _ hfy rfl
          · intro y hy
            refine ⟨?_, ?_, ?_⟩
            · simp only [uInit, optList, hs]
              cases hf : q.first with
              | none => simp
              | some f =>
                simp; intro e; subst e
                exact hfirst_notin y hf (List.mem_cons_of_mem _ hy)
            · rw [hst]; intro e; subst e; exact hu_notin hy
            · intro e; subst e; exact hu_notin hy
          · rw [hst]; intro e
            have : (q.u :: x1 :: rest).getLast? = some q.u := by rw [hclast, e]
            rw [List.getLast?_cons_cons] at this
            have hmem := List.mem_of_getLast? this
            exact hu_notin hmem
        | some s' =>
          have hx1 := hsec s' hs; injection hx1 with hx1; subst hx1
          have hst : start = x1 := by simp [start, hs]
          rw [hst] at hstartD hstart_lk
          have hf : q.first = none := by
            cases hf : q.first with
            | none => rfl
            | some f => exact absurd ⟨by simp [hf], by simp [hs]⟩ hboth
          have hnd1 : (x1 :: rest).Nodup := (List.nodup_cons.mp hnd_core).2
          have hx1_notin : x1 ∉ rest := (List.nodup_cons.mp hnd1).1
          have hx1u : x1 ≠ q.u := fun e => hu_notin (by simp [e])
          refine key rest x1 hstartD ?_ (fun e => absurd e hx1u) hchrest hnd1 ?_
            (by rw [List.getLast?_cons_cons] at hclast; exact hclast) (Or.inr ?_)
          · intro y hy pv hpv
            rw [hstart_lk] at hpv
            simp only [uncovInit, hs, hf] at hpv
            simp [List.lookup_cons] at hpv; subst hpv
            have h2 : pdEdge G q.fc x1 y = true := by
              cases rest with
              | nil => cases hy
              | cons z t =>
                simp at hy; subst hy
                simp only [chainB, Bool.and_eq_true] at hchrest
                exact hchrest.1
            exact hN _ _ _ hpd01 h2
          · intro y hy
            refine ⟨?_, ?_, ?_⟩
            · simp only [uInit, optList, hs, hf]
              simp; intro e; subst e; exact hu_notin (List.mem_cons_of_mem _ hy)
            · rw [hst]; intro e; subst e; exact hx1_notin hy
            · intro e; subst e; exact hu_notin (List.mem_cons_of_mem _ hy)
          · rw [hst]; intro e
            apply hsc; rw [hs, e]; simp
    obtain ⟨p, hpne, hp⟩ := uncovFinish_found hi hfound hlim
    rw [← hres] at hp
    exact ⟨p, hp, hvalid p hp hpne⟩

/-- **Completeness of `uncovered_pd_path` on triangle-free skeletons** (`…_complete_partial`) -/
theorem uncovPdPath_complete_partial (G : MG) (hS : Simple G) (hW : WFG G) (hT : TriangleFree G)
    (nb : Nat → List Nat) (hnb : ∀ x y, y ∈ nb x ↔ adj G x y = true) (q : Query)
    (hfu : q.first ≠ some q.u) (hg : uncovGuard G q = false) (maxLen : Nat)
    (hlen : G.nodes.length < maxLen) (hex : ∃ p, UncovPd G q p) :
    ∃ p, uncovPdPath G nb q maxLen = .ok (p, true) ∧ UncovPd G q p :=
  uncovPdPath_complete_noShield G hS hW q (noShieldedPd_of_triangleFree hT q.fc) nb hnb hfu hg maxLen hlen hex

end C18
