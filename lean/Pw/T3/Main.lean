import Pw.T3.Lift
open Closure

/-! # T3: Meek's completeness theorem (`C08.MeekT3`) and the unconditional corollaries -/
namespace T3
open C08 MG

variable {G D : MG}

/-- all endpoints of edges -/
def verts (G : MG) : List Nat := (G.dir ++ G.un).flatMap fun e => [e.1, e.2]

theorem mem_verts {x y : Nat} (h : Skel G x y) : x ∈ verts G ∧ y ∈ verts G := by
  simp only [verts, List.mem_flatMap, List.mem_append, List.mem_cons, List.not_mem_nil, or_false]
  rcases h with h | h | h | h
  · exact ⟨⟨_, Or.inl h, Or.inl rfl⟩, ⟨_, Or.inl h, Or.inr rfl⟩⟩
  · exact ⟨⟨_, Or.inl h, Or.inr rfl⟩, ⟨_, Or.inl h, Or.inl rfl⟩⟩
  · exact ⟨⟨_, Or.inr h, Or.inl rfl⟩, ⟨_, Or.inr h, Or.inr rfl⟩⟩
  · exact ⟨⟨_, Or.inr h, Or.inr rfl⟩, ⟨_, Or.inr h, Or.inl rfl⟩⟩

open Classical in
/-- **both orientations**: in a closed PDAG with a consistent extension, every undirected edge
    `a - b` is oriented `b -> a` by some consistent extension -/
theorem Ctx.both_plain (h : Ctx G D) {a b : Nat} (hab : HasUn G a b) :
    ∃ D', ConsistentExt G D' ∧ (b, a) ∈ D'.dir ∧ D'.bi = [] ∧ D'.circ = [] := by
  let A := (verts G).filter fun v => decide (Bk G a v)
  have hmem : ∀ v, v ∈ A ↔ v ∈ verts G ∧ Bk G a v := by
    intro v; simp [A]
  have hA : ∀ x y, Bk G a x → Bk G a y → Skel G x y → x ∈ A ∧ y ∈ A := fun x y hx hy hs =>
    ⟨(hmem x).mpr ⟨(mem_verts hs).1, hx⟩, (hmem y).mpr ⟨(mem_verts hs).2, hy⟩⟩
  have hv : NoV G A := fun p hp x hx p' _ hvs =>
    h.no_vstruct_bucket hvs ((UnConn.symm ((hmem x).mp hx).2).trans ((hmem p).mp hp).2)
  have hBa : Bk G a a := UnConn.refl a
  have hBb : Bk G a b := UnConn.single hab
  obtain ⟨haA, hbA⟩ := hA a b hBa hBb hab.skel
  obtain ⟨E, hE, hba⟩ := (h.ext_rel A.length A (Nat.le_refl _) hv).2 a haA b hbA hab
  exact ⟨liftDag G D a E, h.lift_ext hE hA, (h.mem_lift (hE.bor hA)).mpr (Or.inl ⟨hBb, hBa, hba⟩),
    rfl, rfl⟩

theorem Ctx.both (h : Ctx G D) {a b : Nat} (hab : HasUn G a b) :
    ∃ D', ConsistentExt G D' ∧ (b, a) ∈ D'.dir := by
  obtain ⟨D', h1, h2, _⟩ := h.both_plain hab
  exact ⟨D', h1, h2⟩

/-- **Meek's completeness theorem** (Meek 1995, Thm 4; with background knowledge), in the form of
    the hypothesis `C08.MeekT3`. -/
theorem meekT3 : C08.MeekT3 := by
  intro P G _ ⟨D, hD⟩ hnodes hskel hsG hsub hcomp hclosed a b hu hc
  have hGD : ConsistentExt G D := by
    refine ⟨hD.nodes.trans hnodes.symm, hD.noUn, hD.acyclic,
      fun x y => (hD.skel x y).trans (hskel x y).symm, ?_, ?_⟩
    · intro e he
      rcases hcomp e he with c | c
      · exact hD.dir e c
      · exact c D hD
    · intro x z y
      rw [hD.vstruct x z y]
      constructor
      · rintro ⟨h1, h2, hxy, hn⟩
        exact ⟨hsub _ h1, hsub _ h2, hxy, fun s => hn ((hskel x y).mp s)⟩
      · rintro ⟨h1, h2, hxy, hn⟩
        have hn' : ¬ Skel P x y := fun s => hn ((hskel x y).mpr s)
        have key : ∀ u, (u, z) ∈ G.dir → (u, z) ∈ D.dir := fun u hu => by
          rcases hcomp _ hu with c | c
          · exact hD.dir _ c
          · exact c D hD
        exact (hD.vstruct x z y).mp ⟨key x h1, key y h2, hxy, fun s => hn' ((hD.skel x y).mp s)⟩
  have ctx : Ctx G D := ⟨hsG, hGD, hclosed⟩
  obtain ⟨D', hD', hba⟩ := ctx.both hu
  have hPD' : ConsistentExt P D' := by
    refine ⟨hD'.nodes.trans hnodes, hD'.noUn, hD'.acyclic,
      fun x y => (hD'.skel x y).trans (hskel x y), fun e he => hD'.dir e (hsub e he), ?_⟩
    intro x z y
    rw [hD'.vstruct x z y, ← hGD.vstruct x z y, hD.vstruct x z y]
  exact hD'.acyclic a b (hc D' hPD') (Anc.step hba (Anc.refl _))

/-! ## unconditional versions of the conditional theorems of `C08/Complete.lean` -/

/-- **completeness of the Meek closure**: for a PDAG with a consistent extension the closure orients
    exactly the compelled undirected edges -/
theorem meek_complete (P : MG) (inner : List Nat) (hs : Simple P) (hwf : P.WF)
    (hext : ∃ D, ConsistentExt P D) (hin : inner.Nodup) (hcov : ∀ v ∈ P.nodes, v ∈ inner) (a b : Nat) :
    (a, b) ∈ (meek P inner).dir ↔ (a, b) ∈ P.dir ∨ (HasUn P a b ∧ Compelled P a b) :=
  meek_complete_of_T3 meekT3 P inner hs hwf hext hin hcov a b

/-- **C08, first sentence**: on the pattern of a DAG the closure returns the essential graph -/
theorem meek_pattern_essential (D Pt : MG) (inner : List Nat) (hd : IsDAG D) (hp : IsPattern D Pt)
    (hwf : Pt.WF) (hin : inner.Nodup) (hcov : ∀ v ∈ Pt.nodes, v ∈ inner) :
    IsEssential D Pt (meek Pt inner) :=
  meek_pattern_essential_of_T3 meekT3 D Pt inner hd hp hwf hin hcov

/-- **order independence** of the result of the closure -/
theorem meek_order_independent (P : MG) (inner₁ inner₂ : List Nat) (hs : Simple P) (hwf : P.WF)
    (hext : ∃ D, ConsistentExt P D) (h1 : inner₁.Nodup) (h2 : inner₂.Nodup)
    (c1 : ∀ v ∈ P.nodes, v ∈ inner₁) (c2 : ∀ v ∈ P.nodes, v ∈ inner₂) (a b : Nat) :
    ((a, b) ∈ (meek P inner₁).dir ↔ (a, b) ∈ (meek P inner₂).dir) ∧
    (HasUn (meek P inner₁) a b ↔ HasUn (meek P inner₂) a b) :=
  meek_order_independent_of_T3 meekT3 P inner₁ inner₂ hs hwf hext h1 h2 c1 c2 a b

end T3
