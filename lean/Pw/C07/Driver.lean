import Pw.Core.Proto
import Pw.C07.Dec
open Proto

namespace C07
/-- `vm <graph>` → all model and decider answers in one line:
    `validMag validMagDec isMaximal maximalDec hasAdc ancestralDec hasCycle` -/
def hAll : Handler := fun a =>
  let G := a.graph
  let cyc := MG.hasCycle G
  let mx := match isMaximal G with
    | .ok b => fmtBool b
    | .error e => "err:" ++ e
  -- `maximalDec` decides `Maximal` on every graph without undirected edges and self loops (`maximalDec_iff`
  -- has no acyclicity hypothesis: path-level m-separation is defined on cyclic graphs too)
  let mxd := fmtBool (maximalDec G)
  " ".intercalate [fmtBool (validMag G), fmtBool (validMagDec G), mx, mxd, fmtBool (hasAdc G),
    fmtBool (ancestralDec G), fmtBool cyc]

def handlers : List (String × Handler) := [("vm", hAll)]
end C07
