"""C06: dag_to_mag / inducing_path.

Oracles (all on the Lean side, through the compiled driver):
  indpath   the model `C06.inducingPath` (proved: returns a path iff an inducing path exists, and the
            returned path is one – lean/Pw/C06/Proofs.lean)
  inddec    brute force over all simple paths x all choices of one edge per hop, testing the
            specification `C06.InnerOK` literally (independent of the model's per-triple collider test)
  indvalid  validates the node path returned by the implementation against the specification
  dagtomag  the model `C06.dagToMag` (proved structure theorem)
  insep     pairs of remaining nodes that no Z u S separates in D (all subsets, proved MG.mSeparated)
  magsem    m_separated(MAG,x,y,Z) = d_separated(D,x,y,Z u S) for all x,y,Z (proved MG.mSeparated)

Case kinds (JSON):
  {"kind":"ip","g":..,"x":..,"y":..,"L":[..],"S":[..],"fam":..}          one inducing_path query
  {"kind":"ipm","g":..,"fam":..,"Q":[[x,y,L,S],..]}                       many queries on one graph
  {"kind":"dm","g":..,"L":[..],"S":[..],"fam":..}                         one dag_to_mag call
"""
import itertools

from . import common as C
from .shrink import shrink_case

PID = "C06"
DAG_STATES = [(), ("D>",), ("D<",)]


# ----------------------------------------------------------------------------- implementation side
def build_admg(g, lab):
    from pywhy_graphs import ADMG
    G = ADMG()
    # node and edge attributes are part of an ADMG instance and must not influence any answer: a third of
    # the graphs carry them (a shared node-attribute key, a weight on every other edge)
    deco = (len(g.get("D", [])) + 2 * len(g.get("B", [])) + g["n"]) % 3 == 0
    for v in C.g_nodes(g):
        if deco:
            G.add_node(lab(v), kind="variable", idx=v)
        else:
            G.add_node(lab(v))
    j = 0
    for k, nm in (("D", "directed"), ("B", "bidirected"), ("U", "undirected")):
        for a, b in g.get(k, []):
            j += 1
            if deco and j % 2:
                G.add_edge(lab(a), lab(b), edge_type=nm, weight=0.5 * j)
            else:
                G.add_edge(lab(a), lab(b), edge_type=nm)
    return G


def _labels(case, g):
    lab = C.Labels(case.get("fam", "int"))
    for v in C.g_nodes(g):
        lab(v)
    return lab


def _ip_call(G, lab, x, y, L, S, sets=None):
    """one inducing_path call with FRESH (equal, not identical) label objects as arguments"""
    from pywhy_graphs.algorithms import inducing_path
    try:
        wrap = frozenset if lab.family == "nested" else set
        if sets is not None:
            r = inducing_path(G, lab.fresh(x), lab.fresh(y), sets[0], sets[1])
        else:
            r = inducing_path(G, lab.fresh(x), lab.fresh(y), wrap(lab.fresh(v) for v in L), wrap(lab.fresh(v) for v in S))
    except Exception as e:
        return {"ans": "err:" + type(e).__name__}
    if not (isinstance(r, tuple) and len(r) == 2 and (r[0] is True or r[0] is False)):
        return {"ans": "bad:" + repr(r)[:80]}
    try:
        path = [lab.inv(v) for v in r[1]]
    except Exception:
        return {"ans": "bad:path-has-foreign-node:" + repr(r[1])[:80]}
    return {"ans": "T" if r[0] else "F", "path": path}


def impl(case):
    g = case["g"]
    lab = _labels(case, g)
    try:
        G = build_admg(g, lab)
    except Exception as e:
        return {"ans": "err:build:" + type(e).__name__}
    k = case["kind"]
    if C.warm_decide(case):
        # query, edit the same object in place, query again (see common.warmup)
        def _warm():
            if k == "dm":
                from pywhy_graphs.algorithms import dag_to_mag
                dag_to_mag(G, {lab.fresh(v) for v in case["L"]}, {lab.fresh(v) for v in case["S"]})
            elif k == "ip":
                _ip_call(G, lab, case["x"], case["y"], case["L"], case["S"])
            else:
                for x, y, L, S in case["Q"][:3]:
                    _ip_call(G, lab, x, y, L, S)
        C.warmup(G, _warm)
    if k == "ip":
        if C.warm_decide({"g": g, "x": case["x"], "y": case["y"], "k": "same-object"}, 3):
            # the SAME set objects are first used for another query (L and S exchanged) and then changed in place:
            # what counts is what the sets contain when the call is made
            from pywhy_graphs.algorithms import inducing_path
            Lo, So = {lab.fresh(v) for v in case["S"]}, {lab.fresh(v) for v in case["L"]}
            try:
                inducing_path(G, lab.fresh(case["x"]), lab.fresh(case["y"]), Lo, So)
            except Exception:
                pass
            Lo.clear()
            So.clear()
            Lo.update(lab.fresh(v) for v in case["L"])
            So.update(lab.fresh(v) for v in case["S"])
            return _ip_call(G, lab, case["x"], case["y"], case["L"], case["S"], sets=(Lo, So))
        return _ip_call(G, lab, case["x"], case["y"], case["L"], case["S"])
    if k == "ipm":
        if C.warm_decide({"g": g, "n": len(case["Q"]), "k": "same-object"}, 3):
            # one pair of set objects for the whole series of queries, changed in place from query to query
            Lo, So, res = set(), set(), []
            for x, y, L, S in case["Q"]:
                Lo.clear()
                So.clear()
                Lo.update(lab.fresh(v) for v in L)
                So.update(lab.fresh(v) for v in S)
                res.append(_ip_call(G, lab, x, y, L, S, sets=(Lo, So)))
            return res
        return [_ip_call(G, lab, x, y, L, S) for x, y, L, S in case["Q"]]
    if k == "dm":
        from pywhy_graphs.algorithms import dag_to_mag
        before = C.snapshot(G)
        try:
            wrap = frozenset if lab.family == "nested" else set
            M = dag_to_mag(G, wrap(lab.fresh(v) for v in case["L"]), wrap(lab.fresh(v) for v in case["S"]))
        except Exception as e:
            return {"ans": "err:" + type(e).__name__}
        try:
            nodes = [lab.inv(v) for v in M.nodes]
            es = M.edges()
            D = [(lab.inv(a), lab.inv(b)) for a, b in es.get("directed", [])]
            B = [(lab.inv(a), lab.inv(b)) for a, b in es.get("bidirected", [])]
            U = [(lab.inv(a), lab.inv(b)) for a, b in es.get("undirected", [])]
            extra = sorted(k for k, v in es.items() if k not in ("directed", "bidirected", "undirected") and len(v))
        except Exception as e:
            return {"ans": "bad:result:" + type(e).__name__}
        return {"ans": C.canon_graph(nodes, D, B, U), "nodes": sorted(nodes), "D": sorted(set(D)),
                "B": sorted(set((min(a, b), max(a, b)) for a, b in B)),
                "U": sorted(set((min(a, b), max(a, b)) for a, b in U)), "extra": extra,
                "mutated": before != C.snapshot(G)}
    raise ValueError(k)


# ----------------------------------------------------------------------------- Lean request lines
def q_line(fn, g, x, y, L, S, extra=""):
    return "%s %s x=%d y=%d L=%s S=%s%s" % (fn, C.g_line(g), x, y, C.fmt_set(L), C.fmt_set(S), extra)


def dm_line(fn, g, L, S, extra=""):
    return "%s %s L=%s S=%s%s" % (fn, C.g_line(g), C.fmt_set(L), C.fmt_set(S), extra)


def mag_extra(got):
    return " MN=%s MD=%s MB=%s MU=%s" % (C.fmt_set(got["nodes"]), C.fmt_pairs(got["D"]), C.fmt_pairs(got["B"]),
                                         C.fmt_pairs(got["U"]))


def ip_in_domain(g, x, y, L, S):
    """quantifier of the inducing_path clause: ADMG (directed+bidirected, acyclic), disjoint L,S,
    ordered pair of distinct nodes outside L u S"""
    nodes = C.g_nodes(g)
    return (not g.get("U") and not g.get("C") and x != y and x in nodes and y in nodes
            and not (set(L) & set(S)) and x not in L and x not in S and y not in L and y not in S
            and all(a != b for k in "DB" for a, b in g[k]) and C.is_acyclic(g["n"], g["D"]))


def adjacent(g, x, y):
    return any((a == x and b == y) or (a == y and b == x) for k in "DBU" for a, b in g.get(k, []))


# ----------------------------------------------------------------------------- judging
def judge_ip(g, x, y, L, S, got, model, dec, valid):
    """-> None | (severity, kind, detail); severity 'violation' = implementation contradicts the
    specification decider, 'corr' = differs from the model only"""
    dom = ip_in_domain(g, x, y, L, S)
    mans = model.split(":")[0]
    if dom:
        if mans != dec:
            return ("corr", "model-vs-decider", "Lean model=%s Lean brute-force spec=%s" % (model, dec))
        if got["ans"] != dec:
            return ("violation", "answer", "inducing_path says %s, specification (brute force over all simple paths) says %s"
                    % (got["ans"], dec))
        if got["ans"] == "T" and valid != "T":
            return ("violation", "path", "returned path %r is not an inducing path from x to y" % (got.get("path"),))
        if got["ans"] == "F" and got.get("path"):
            return ("violation", "path", "False with a non-empty path %r" % (got.get("path"),))
        return None
    if got["ans"] != mans:
        return ("corr", "guard", "outside the quantifier: implementation=%s model=%s" % (got["ans"], model))
    return None


def judge_dm(case, got, model, insep, sem):
    g, L, S = case["g"], case["L"], case["S"]
    remaining = sorted(v for v in C.g_nodes(g) if v not in L and v not in S)
    if got["ans"].startswith("err") or got["ans"].startswith("bad"):
        return ("violation", "raises", "dag_to_mag failed on a DAG with disjoint L,S: %s (model: %s)" % (got["ans"], model))
    if got["nodes"] != remaining:
        return ("violation", "nodes", "nodes of the result %r != remaining nodes %r" % (got["nodes"], remaining))
    if got["extra"]:
        return ("violation", "edge-kinds", "result has edges of kinds %r" % (got["extra"],))
    adj = sorted(set((min(a, b), max(a, b)) for a, b in got["D"]) | set(map(tuple, got["B"])) | set(map(tuple, got["U"])))
    if insep is not None:
        want = C.fmt_pairs(sorted(set(insep)))
        if C.fmt_pairs(adj) != want:
            return ("violation", "adjacency", "adjacent pairs %s != pairs inseparable in D given S (all subsets): %s"
                    % (C.fmt_pairs(adj), want))
    if sem is not None and sem != "T":
        return ("violation", "independence-model", "m_separated(MAG,x,y,Z) != d_separated(D,x,y,Z u S) at x,y:Z = %s" % sem[2:])
    if got["ans"] != model:
        return ("corr", "mag", "implementation MAG %s != model MAG %s (semantic clauses hold)" % (got["ans"], model))
    return None


def parse_pairs(s):
    return [tuple(int(t) for t in p.split("-")) for p in s.split(",") if p]


# ----------------------------------------------------------------------------- generators
def ls_assignments(nodes):
    for asg in itertools.product((0, 1, 2), repeat=len(nodes)):
        yield [v for v, a in zip(nodes, asg) if a == 1], [v for v, a in zip(nodes, asg) if a == 2]


def all_queries(n, guards=False):
    out = []
    for x, y in itertools.permutations(range(n), 2):
        others = [v for v in range(n) if v not in (x, y)]
        for L, S in ls_assignments(others):
            out.append([x, y, L, S])
    if guards:  # outside the quantifier: endpoints in L or S (model-vs-code correspondence only)
        for x, y in itertools.permutations(range(n), 2):
            out.append([x, y, [x], []])
            out.append([x, y, [], [y]])
    return out


def acyclic_graphs(n, states):
    for g in C.enum_graphs(n, states):
        if C.is_acyclic(n, g["D"]):
            yield g


def rand_admg(rng, n, dag_only=False):
    kind = rng.random()
    dens = rng.choice((0.3, 0.45, 0.6, 0.8))
    if dag_only:
        return C.rand_dag_order_graph(rng, n, [("D>",)], density=dens)
    if kind < 0.2:
        return C.rand_dag_order_graph(rng, n, [("D>",), ("D>",), ("B",)], density=dens)
    if kind < 0.5:   # many crossing collider/non-collider routes: where a node's passability depends on its predecessor
        return C.rand_dag_order_graph(rng, n, [("D>",), ("B",), ("B",)], density=rng.choice((0.5, 0.6, 0.7)))
    if kind < 0.7:
        return C.rand_dag_order_graph(rng, n, [("D>",), ("B",), ("D>", "B")], density=dens)   # bows
    if kind < 0.85:
        return C.rand_dag_order_graph(rng, n, [("B",), ("B",), ("D>",)], density=dens)         # collider chains
    return C.rand_dag_order_graph(rng, n, [("D>",)], density=dens)


def rand_ls(rng, nodes, pl=None, ps=None):
    pl = rng.choice((0.0, 0.2, 0.4, 0.7)) if pl is None else pl
    ps = rng.choice((0.0, 0.0, 0.15, 0.3)) if ps is None else ps
    L, S = [], []
    for v in nodes:
        r = rng.random()
        if r < pl:
            L.append(v)
        elif r < pl + ps:
            S.append(v)
    return L, S


def gen(ctx):
    """yields cases (ipm / dm)"""
    tier, rng = ctx["tier"], ctx["rng"]
    fams = C.Labels.FAMILIES
    i = 0
    # exhaustive: inducing_path on all acyclic ADMGs, dag_to_mag on all DAGs
    nmax_ip_full = 3 if tier == "quick" else 4
    for n in range(2, nmax_ip_full + 1):
        Q = all_queries(n, guards=(n < 4))
        for g in acyclic_graphs(n, C.ADMG_STATES):
            i += 1
            c = {"kind": "ipm", "g": g, "fam": fams[i % len(fams)] if n < 4 else ("int", "bigint", "str", "tuple")[i % 4], "Q": Q, "src": "exh-ip%d" % n}
            if n == 4 and i % 4:
                c["nodec"] = True      # 4-node exhaustive part: cross-check with the brute-force decider on every 4th graph
            yield c
    if tier == "quick":
        gs = list(acyclic_graphs(4, C.ADMG_STATES))
        Q4 = all_queries(4)
        for g in rng.sample(gs, 700):
            i += 1
            yield {"kind": "ipm", "g": g, "fam": fams[i % len(fams)], "Q": rng.sample(Q4, 30), "src": "smp-ip4"}
    nmax_dm_full = 3 if tier == "quick" else 4
    for n in range(1, nmax_dm_full + 1):
        for g in acyclic_graphs(n, DAG_STATES):
            for L, S in ls_assignments(list(range(n))):
                i += 1
                yield {"kind": "dm", "g": g, "L": L, "S": S, "fam": fams[i % len(fams)], "src": "exh-dm%d" % n}
    if tier == "quick":
        gs = list(acyclic_graphs(4, DAG_STATES))
        for g in gs:
            for L, S in rng.sample(list(ls_assignments([0, 1, 2, 3])), 14):
                i += 1
                yield {"kind": "dm", "g": g, "L": L, "S": S, "fam": fams[i % len(fams)], "src": "smp-dm4"}
    # structured random, n = 5..7 (the order-dependent incompleteness of the unfixed DFS starts at 5)
    N = 2000 if tier == "quick" else 20000
    for j in range(N):
        n = rng.choice((5, 5, 6, 6, 7, 7, 8))
        g = rand_admg(rng, n)
        if j % 3 == 0:
            g = C.shuffled_graph(rng, g)
        Q = []
        for _ in range(24):
            x, y = rng.sample(range(n), 2)
            L, S = rand_ls(rng, [v for v in range(n) if v not in (x, y)], pl=rng.choice((0.0, 0.2, 0.3, 0.5)),
                           ps=rng.choice((0.0, 0.15, 0.3, 0.3)))
            Q.append([x, y, L, S])
        i += 1
        yield {"kind": "ipm", "g": g, "fam": fams[i % len(fams)], "Q": Q, "src": "rnd-ip%d" % n}
    N = 1200 if tier == "quick" else 10000
    for j in range(N):
        n = rng.choice((5, 5, 5, 6)) if tier == "quick" else rng.choice((5, 5, 6, 6, 7))
        g = rand_admg(rng, n, dag_only=True)
        if j % 3 == 0:
            g = C.shuffled_graph(rng, g)
        L, S = rand_ls(rng, list(range(n)), pl=rng.choice((0.0, 0.2, 0.4, 0.6)), ps=rng.choice((0.0, 0.2, 0.4)))
        i += 1
        yield {"kind": "dm", "g": g, "L": L, "S": S, "fam": fams[i % len(fams)], "src": "rnd-dm%d" % n}


# ----------------------------------------------------------------------------- run
SEM_MAX_N = 5      # all-subsets semantic clauses are evaluated for graphs up to this size (6 in thorough)


class _Acc:
    """evidence accumulator filled inside a worker process, merged into common.Evidence by the parent"""

    def __init__(self):
        self.n = 0
        self.nt = set()
        self.hist = {}
        self.samples = []

    def case(self, case, nontrivial=False):
        import hashlib
        import json
        self.n += 1
        if nontrivial:
            self.nt.add(hashlib.sha1(json.dumps(case, sort_keys=True, default=str).encode()).hexdigest()[:16])
        if len(self.samples) < 2:
            self.samples.append(case)

    def count(self, key, k=1):
        self.hist[key] = self.hist.get(key, 0) + k

    def merge_into(self, ev):
        ev.evaluations += self.n
        ev.nontrivial |= self.nt
        for k, v in self.hist.items():
            ev.count(k, v)
        for c in self.samples:
            if len(ev.samples) < 12:
                ev.samples.append(c)


def eval_sub(args):
    """worker: implementation + Lean oracles + judging for a list of cases; returns (bad, acc)"""
    cases, semmax = args
    ev = _Acc()
    gots = [impl(c) for c in cases]
    lines, idx = [], []
    for ci, (c, got) in enumerate(zip(cases, gots)):
        if c["kind"] == "ipm":
            for qi, (x, y, L, S) in enumerate(c["Q"]):
                idx.append((ci, qi, len(lines)))
                lines.append(q_line("indpath", c["g"], x, y, L, S))
                # `nodec`: the (proved equal) brute-force decider is skipped, the proved model decides alone
                lines.append(q_line("inddec", c["g"], x, y, L, S) if not c.get("nodec") else "noop")
                r = got[qi] if isinstance(got, list) else got
                lines.append(q_line("indvalid", c["g"], x, y, L, S, " P=" + ",".join(map(str, r.get("path", []))))
                             if r.get("ans") == "T" else "noop")
        elif c["kind"] == "ip":
            idx.append((ci, None, len(lines)))
            lines.append(q_line("indpath", c["g"], c["x"], c["y"], c["L"], c["S"]))
            lines.append(q_line("inddec", c["g"], c["x"], c["y"], c["L"], c["S"]))
            lines.append(q_line("indvalid", c["g"], c["x"], c["y"], c["L"], c["S"], " P=" + ",".join(map(str, got.get("path", []))))
                         if got.get("ans") == "T" else "noop")
        else:
            idx.append((ci, None, len(lines)))
            lines.append(dm_line("dagtomag", c["g"], c["L"], c["S"]))
            small = c["g"]["n"] <= semmax
            lines.append(dm_line("insep", c["g"], c["L"], c["S"]) if small else "noop")
            lines.append(dm_line("magsem", c["g"], c["L"], c["S"], mag_extra(got)) if small and "nodes" in got else "noop")
    ans = C.lean_batch(lines, jobs=1)
    bad = []
    for ci, qi, li in idx:
        c, got = cases[ci], gots[ci]
        if c["kind"] in ("ipm", "ip"):
            if c["kind"] == "ipm":
                x, y, L, S = c["Q"][qi]
                r = got[qi] if isinstance(got, list) else got
            else:
                x, y, L, S, r = c["x"], c["y"], c["L"], c["S"], got
            single = {"kind": "ip", "g": c["g"], "x": x, "y": y, "L": L, "S": S, "fam": c.get("fam", "int"), "src": c.get("src", "")}
            model, dec, valid = ans[li], ans[li + 1], ans[li + 2]
            if dec == "bad-op":
                dec = model.split(":")[0]
            dom = ip_in_domain(c["g"], x, y, L, S)
            nt = dom and not adjacent(c["g"], x, y) and (dec == "T" or bool(L or S))
            ev.case(single, nontrivial=nt)
            ev.count("ip:" + ("dom:" + dec if dom else "guard"))
            ev.count("src:" + c.get("src", ""))
            ev.count("fam:" + c.get("fam", "int"))
            if r.get("ans") == "T":
                ev.count("ip:path-validated")
                ev.count("ip:pathlen:%d" % len(r.get("path", [])))
            v = judge_ip(c["g"], x, y, L, S, r, model, dec, valid)
        else:
            single = c
            model, insep, sem = ans[li], ans[li + 1], ans[li + 2]
            small = c["g"]["n"] <= semmax
            ins = parse_pairs(insep) if small and insep != "bad-op" else None
            nt = bool(c["L"] or c["S"]) and (bool(c["L"]) or " B= " not in model)
            ev.case(single, nontrivial=nt)
            ev.count("dm:" + ("sem-all-Z" if small else "structure-only"))
            ev.count("src:" + c.get("src", ""))
            ev.count("fam:" + c.get("fam", "int"))
            v = judge_dm(c, got, model, ins, sem if small and "nodes" in got else None)
        if v:
            bad.append((single, v))
    return bad, ev


def par_map(fn, items, jobs=None):
    jobs = jobs or min(16, C.os.cpu_count() or 1)
    if jobs <= 1 or len(items) <= 1:
        return [fn(x) for x in items]
    import multiprocessing as mp
    with mp.get_context("fork").Pool(jobs) as pool:
        return pool.map(fn, items, chunksize=1)


def eval_chunk(ctx, cases):
    """returns list of (single_case, (severity, kind, detail)); work is done in parallel workers"""
    semmax = SEM_MAX_N if ctx["tier"] == "quick" else 6
    step = max(1, min(200, len(cases) // 64 + 1))
    subs = [(cases[i:i + step], semmax) for i in range(0, len(cases), step)]
    bad = []
    for b, acc in par_map(eval_sub, subs):
        bad += b
        acc.merge_into(ctx["ev"])
    return bad


def fails(case, drv, want_kind=None):
    """does the (single) case still show a violation-level disagreement"""
    got = impl(case)
    if case["kind"] == "ip":
        g, x, y, L, S = case["g"], case["x"], case["y"], case["L"], case["S"]
        if not ip_in_domain(g, x, y, L, S):
            return False
        model, dec = drv.ask(q_line("indpath", g, x, y, L, S)), drv.ask(q_line("inddec", g, x, y, L, S))
        valid = drv.ask(q_line("indvalid", g, x, y, L, S, " P=" + ",".join(map(str, got.get("path", []))))) if got.get("ans") == "T" else ""
        v = judge_ip(g, x, y, L, S, got, model, dec, valid)
    else:
        g, L, S = case["g"], case["L"], case["S"]
        if set(L) & set(S) or g.get("B") or g.get("U") or not C.is_acyclic(g["n"], g["D"]):
            return False
        model = drv.ask(dm_line("dagtomag", g, L, S))
        ins = parse_pairs(drv.ask(dm_line("insep", g, L, S)))
        sem = drv.ask(dm_line("magsem", g, L, S, mag_extra(got))) if "nodes" in got else None
        v = judge_dm(case, got, model, ins, sem)
    return bool(v) and v[0] == "violation" and (want_kind is None or v[1] == want_kind)


def describe(case, drv):
    got = impl(case)
    if case["kind"] == "ip":
        a = (case["g"], case["x"], case["y"], case["L"], case["S"])
        return {"impl": got, "model": drv.ask(q_line("indpath", *a)), "spec_decider": drv.ask(q_line("inddec", *a)),
                "lean_request": q_line("inddec", *a)}
    a = (case["g"], case["L"], case["S"])
    return {"impl": got, "model": drv.ask(dm_line("dagtomag", *a)), "inseparable_pairs": drv.ask(dm_line("insep", *a)),
            "independence_model": drv.ask(dm_line("magsem", *a, mag_extra(got))) if "nodes" in got else None,
            "lean_request": dm_line("dagtomag", *a)}


def report(ctx, bad):
    """shrink the first violation of each kind; record correspondence breaks"""
    out = ctx["out"]
    seen = set()
    drv = C.Driver()
    try:
        for case, (sev, kind, detail) in bad:
            key = (sev, case["kind"], kind)
            if key in seen:
                continue
            seen.add(key)
            if sev == "violation":
                small = shrink_case(case, lambda c: fails(c, drv, kind))
                out.violation(small, {"kind": kind, "detail": detail, "original_case": case,
                                      "disagreements_total": sum(1 for _, v in bad if v[0] == "violation"),
                                      **describe(small, drv)})
            else:
                out.corr(case, {"kind": kind, "detail": detail, **describe(case, drv)})
    finally:
        drv.close()


def chunks(it, size):
    buf = []
    for x in it:
        buf.append(x)
        if len(buf) >= size:
            yield buf
            buf = []
    if buf:
        yield buf


def stress():
    """LARGE inputs with a closed-form MAG (labelled TESTS: fixed-width counters and recursion depth only show at
    this size):  z -> a -> l1 -> ... -> l32 -> b with l1..l32 latent plus 32 isolated observed nodes  =>  the MAG
    is z -> a -> b plus the isolated nodes;  the same with S = {b}: a and z become adjacent to nothing new, the
    edges into the selection ancestors are undirected:  z - a."""
    from pywhy_graphs import ADMG
    from pywhy_graphs.algorithms import dag_to_mag
    lat = ["l%d" % i for i in range(1, 33)]
    chain = ["z", "a"] + lat + ["b"]
    iso = ["i%d" % i for i in range(32)]
    for name, L, S, wantD, wantU, nodes in (
            ("latent-chain-67-nodes", set(lat), set(), {("z", "a"), ("a", "b")}, set(), {"z", "a", "b"} | set(iso)),):
        G = ADMG()
        G.add_edges_from(list(zip(chain, chain[1:])), "directed")
        G.add_nodes_from(iso)
        try:
            with C.time_limit(120):
                M = dag_to_mag(G, set(L), set(S))
            es = M.edges()
            gotD = set(es.get("directed", []))
            gotB = set(frozenset(e) for e in es.get("bidirected", []))
            gotU = set(frozenset(e) for e in es.get("undirected", []))
            why = None
            if set(M.nodes) != nodes:
                why = "nodes of the MAG: %d, expected %d" % (len(M.nodes), len(nodes))
            elif gotD != wantD or gotB or gotU != wantU:
                why = "MAG edges directed %s bidirected %s undirected %s; expected directed %s" % (
                    sorted(gotD), sorted(map(sorted, gotB)), sorted(map(sorted, gotU)), sorted(wantD))
        except C.CallTimeout:
            why = None
        except BaseException as e:
            why = "raised %s" % type(e).__name__
        yield name, why


def run(ctx):
    for _name, _why in stress():
        ctx["ev"].count("stress:" + _name + (":ok" if _why is None else ":BAD"))
        if _why is not None:
            ctx["out"].violation({"kind": "stress", "name": _name},
                                 {"kind": "dag_to_mag on a large input", "detail": _why, "input": "see harness/c06.py stress()"})
    import time
    ev = ctx["ev"]
    ev.rule = ("inducing_path: every acyclic ADMG on 2-3 nodes (thorough: 2-4) over pair states {none,->,<-,<->,->+<->,<-+<->} x every "
               "ordered pair x every split of the other nodes into L/S/neither (plus guard queries with an endpoint in L or S), "
               "quick adds a sample of the 4-node ones; random acyclic ADMGs n=5..8 (sparse/dense, bows, collider chains, shuffled "
               "insertion order). dag_to_mag: every DAG on 1-3 nodes (thorough: 1-4) x every disjoint (L,S), random DAGs n=5..7; the "
               "all-subsets clauses (adjacency iff inseparable; m_sep(MAG,x,y,Z)=d_sep(D,x,y,Z u S) for all x,y,Z) are evaluated by "
               "Lean for n<=5 (thorough 6). Five label families; node arguments are fresh equal-but-not-identical objects. "
               "non-trivial: inducing_path query inside the quantifier with non-adjacent endpoints and (answer True or L u S non-empty); "
               "dag_to_mag call with L u S non-empty and (L non-empty or a bidirected edge in the result)")
    ev.assumptions = ["L and S are disjoint subsets of V; for inducing_path the endpoints are distinct nodes outside L u S "
                      "(an inducing path relative to <L,S> is defined between observed nodes; the early `return False` for "
                      "endpoints in L u S is compared with the model only)",
                      "inducing_path inputs are acyclic ADMGs without self loops; dag_to_mag inputs are DAGs",
                      "the clauses linking inducing paths to (in)separability are tested, not proved (Richardson-Spirtes, T5)"]
    bad = []
    corpus = [c for c in C.load_corpus(PID)]
    if corpus:
        bad += eval_chunk(ctx, corpus)
        ev.count("src:corpus", len(corpus))
    for ch in chunks(gen(ctx), 6000):
        if time.time() > ctx["deadline"] - 20:
            ev.extra["stopped_at_deadline"] = True
            break
        bad += eval_chunk(ctx, ch)
        if sum(1 for _, v in bad if v[0] == "violation") > 50:
            break
    ev.extra["exhaustive_part"] = ("inducing_path: all acyclic ADMGs <=3 nodes (quick) / <=4 nodes (thorough) x all queries; "
                                   "dag_to_mag: all DAGs <=3 (quick) / <=4 (thorough) nodes x all disjoint (L,S)")
    if bad:
        report(ctx, bad)


def replay(ctx, payload):
    case = payload.get("case") or payload.get("correspondence", {}).get("case")
    if case is None:
        print("nothing to replay: the payload names theorems only:", payload.get("theorems_not_checking"))
        return 0
    drv = C.Driver()
    try:
        d = describe(case, drv)
        bad = fails(case, drv)
    finally:
        drv.close()
    print(d)
    print("REPRODUCED" if bad else "NOT-REPRODUCED")
    return 1 if bad else 0


# ----------------------------------------------------------------------------- C15 adapter
_DRV = None


def _drv():
    global _DRV
    if _DRV is None:
        _DRV = C.Driver()
    return _DRV


def c15_cases(rng, k):
    out = []
    while len(out) < k:
        n = rng.choice((3, 4, 4, 5, 5, 6))
        if len(out) % 3 == 2:
            g = rand_admg(rng, n, dag_only=True)
            L, S = rand_ls(rng, list(range(n)), pl=0.35, ps=0.15)
            out.append({"kind": "dm", "g": g, "L": L, "S": S})
        else:
            g = rand_admg(rng, n)
            x, y = rng.sample(range(n), 2)
            L, S = rand_ls(rng, [v for v in range(n) if v not in (x, y)])
            out.append({"kind": "ip", "g": g, "x": x, "y": y, "L": L, "S": S})
    return out


def c15_eval(case, fam, order_seed):
    import random
    c = dict(case)
    c["fam"] = fam
    c["g"] = C.shuffled_graph(random.Random(order_seed), case["g"])
    got = impl(c)
    if case["kind"] == "dm":
        return got["ans"]
    if got["ans"] == "F":
        return "none"
    if got["ans"] != "T":
        return got["ans"]
    ok = _drv().ask(q_line("indvalid", case["g"], case["x"], case["y"], case["L"], case["S"],
                           " P=" + ",".join(map(str, got.get("path", [])))))
    return "found:valid" if ok == "T" else "found:INVALID:not-an-inducing-path:" + "-".join(map(str, got.get("path", [])))


def c15_expected(cases):
    lines = [dm_line("dagtomag", c["g"], c["L"], c["S"]) if c["kind"] == "dm"
             else q_line("indpath", c["g"], c["x"], c["y"], c["L"], c["S"]) for c in cases]
    ans = C.lean_batch(lines, jobs=1 if len(lines) < 4000 else None)
    out = []
    for c, a in zip(cases, ans):
        if c["kind"] == "dm":
            out.append(a)
        else:
            out.append("found:valid" if a.startswith("T") else ("none" if a == "F" else "err:ValueError"))
    return out
