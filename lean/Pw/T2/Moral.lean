import Pw.T2.InA
open Closure

/-! # T2, part 3: the moral graph of the anterior subgraph as a relation, and semi-open walks

`HAdj G A u v`: u and v are joined inside `A` by an edge or by a walk all of whose inner nodes are
colliders (collider-connected).  `HConn G A Z u v`: v is reachable from u in that graph by a walk all
of whose nodes after u avoid `Z` – an ordinary vertex-cut statement. -/
namespace MG

/-- every inner node of the walk is a collider -/
def CollW : Option Mark → List Hop → Prop
  | _, [] => True
  | none, h :: t => CollW (some h.mn) t
  | some m, h :: t => (m = .head ∧ h.mp = .head) ∧ CollW (some h.mn) t

def HAdj (G : MG) (A : Nat → Prop) (u v : Nat) : Prop :=
  ∃ hs, hs ≠ [] ∧ ValidW G u hs ∧ endNode u hs = v ∧ CollW none hs ∧ ∀ w ∈ nodesOf u hs, A w

inductive HConn (G : MG) (A : Nat → Prop) (Z : List Nat) : Nat → Nat → Prop
  | refl (a : Nat) : HConn G A Z a a
  | step {a b c : Nat} : HAdj G A a b → b ∉ Z → HConn G A Z b c → HConn G A Z a c

abbrev Tr : Nat → Prop := fun _ => True

theorem collW_snoc : ∀ (P : List Hop) (e : Option Mark) (h : Hop) (m : Mark),
    exitMark e P = some m → CollW e P → m = .head → h.mp = .head → CollW e (P ++ [h])
  | [], e, h, m, hm, _, h1, h2 => by
    simp only [exitMark] at hm
    subst hm
    simp [CollW, h1, h2]
  | x :: t, e, h, m, hm, hc, h1, h2 => by
    have hm' : exitMark (some x.mn) t = some m := by
      cases t <;> simpa [exitMark, lastMn] using hm
    cases e with
    | none =>
      simp only [List.cons_append, CollW] at hc ⊢
      exact collW_snoc t _ h m hm' hc h1 h2
    | some m0 =>
      simp only [List.cons_append, CollW] at hc ⊢
      exact ⟨hc.1, collW_snoc t _ h m hm' hc.2 h1 h2⟩

theorem openP_of_collW {Z : List Nat} : ∀ (Q : List Hop) (e : Option Mark) (a : Nat),
    CollW e Q → OpenP Tr Z e a Q
  | [], _, _, _ => trivial
  | h :: t, none, a, hc => ⟨trivial, openP_of_collW t _ _ hc⟩
  | h :: t, some m, a, hc => by
    refine ⟨?_, openP_of_collW t _ _ hc.2⟩
    simp [condPO, condP, hc.1.1, hc.1.2, Tr]

theorem openP_of_none {C : Nat → Prop} {Z : List Nat} {b : Nat} (hb : b ∉ Z) (hC : C b) :
    ∀ (P : List Hop) (e : Option Mark), OpenP C Z none b P → OpenP C Z e b P
  | [], _, _ => trivial
  | h :: t, none, ho => ho
  | h :: t, some m, ho => by
    refine ⟨?_, ho.2⟩
    simp only [condPO, condP]
    split
    · exact hC
    · exact hb

theorem nodesOf_append (a : Nat) (P Q : List Hop) :
    nodesOf a (P ++ Q) = nodesOf a P ++ Q.map (·.nx) := by
  simp [nodesOf]

theorem endNode_mem_nodesOf : ∀ (P : List Hop) (a : Nat), endNode a P ∈ nodesOf a P
  | [], a => by simp [nodesOf, endNode]
  | h :: t, a => by
    have := endNode_mem_nodesOf t h.nx
    simp only [nodesOf, endNode, List.map_cons, List.mem_cons] at this ⊢
    rcases this with h1 | h1
    · exact Or.inr (Or.inl h1)
    · exact Or.inr (Or.inr h1)

/-- an H-walk unfolds into a semi-open walk inside A -/
theorem semiOpen_of_hconn {G : MG} {A : Nat → Prop} {Z : List Nat} {u y : Nat}
    (h : HConn G A Z u y) (hu : A u) :
    ∃ hs, ValidW G u hs ∧ endNode u hs = y ∧ OpenP Tr Z none u hs ∧ ∀ w ∈ nodesOf u hs, A w := by
  induction h with
  | refl a => exact ⟨[], trivial, rfl, trivial, by simpa [nodesOf] using hu⟩
  | @step a b c hadj hbZ _ ih =>
    obtain ⟨Q, _, hvQ, hendQ, hcQ, hAQ⟩ := hadj
    have hbA : A b := by rw [← hendQ]; exact hAQ _ (endNode_mem_nodesOf Q a)
    obtain ⟨P, hvP, hendP, hoP, hAP⟩ := ih hbA
    refine ⟨Q ++ P, ?_, ?_, ?_, ?_⟩
    · rw [validW_append, hendQ]; exact ⟨hvQ, hvP⟩
    · rw [endNode_append, hendQ, hendP]
    · rw [openP_append, hendQ]
      exact ⟨openP_of_collW Q none a hcQ, openP_of_none hbZ trivial P _ hoP⟩
    · intro w hw
      rw [nodesOf_append] at hw
      rcases List.mem_append.mp hw with hw | hw
      · exact hAQ w hw
      · exact hAP w (by simp only [nodesOf, List.mem_cons]; exact Or.inr hw)

/-- a semi-open walk inside A folds into an H-walk; `pre` is the pending collider section -/
theorem hconn_of_semiOpen {G : MG} {A : Nat → Prop} {Z : List Nat} :
    ∀ (hs : List Hop) (u a : Nat) (pre : List Hop),
      ValidW G u pre → endNode u pre = a → CollW none pre → (∀ w ∈ nodesOf u pre, A w) →
      ValidW G a hs → OpenP Tr Z (exitMark none pre) a hs → (∀ w ∈ nodesOf a hs, A w) →
      endNode a hs ∉ Z → HConn G A Z u (endNode a hs)
  | [], u, a, pre, hvp, hep, hcp, hap, _, _, _, hy => by
    cases pre with
    | nil =>
      simp only [endNode] at hep ⊢
      rw [hep]; exact HConn.refl _
    | cons p ps =>
      exact HConn.step ⟨p :: ps, by simp, hvp, hep, hcp, hap⟩ hy (HConn.refl _)
  | h :: t, u, a, pre, hvp, hep, hcp, hap, hv, ho, ha, hy => by
    obtain ⟨hv1, hv2⟩ := hv
    obtain ⟨ho1, ho2⟩ := ho
    have haA : A a := ha a (by simp [nodesOf])
    have hnxA : A h.nx := ha h.nx (by simp [nodesOf])
    have htA : ∀ w ∈ nodesOf h.nx t, A w := by
      intro w hw
      apply ha w
      simp only [nodesOf, List.map_cons, List.mem_cons] at hw ⊢
      exact Or.inr hw
    -- restart a fresh collider section [h] at `a`
    have fresh : HConn G A Z a (endNode h.nx t) :=
      hconn_of_semiOpen t a h.nx [h] ⟨hv1, trivial⟩ rfl (by simp [CollW])
        (by intro w hw; simp [nodesOf] at hw; rcases hw with rfl | rfl <;> assumption)
        hv2 (by simpa [exitMark, lastMn] using ho2) htA hy
    cases pre with
    | nil =>
      simp only [endNode] at hep
      subst hep
      exact fresh
    | cons p ps =>
      have hex : exitMark none (p :: ps) = some (lastMn p.mn ps) := rfl
      by_cases hcol : lastMn p.mn ps = .head ∧ h.mp = .head
      · -- `a` is a collider: extend the pending section
        have hv' : ValidW G u ((p :: ps) ++ [h]) := by
          rw [validW_append, hep]; exact ⟨hvp, hv1, trivial⟩
        have he' : endNode u ((p :: ps) ++ [h]) = h.nx := endNode_snoc _ _ _
        have hc' : CollW none ((p :: ps) ++ [h]) := collW_snoc _ _ h _ hex hcp hcol.1 hcol.2
        have ha' : ∀ w ∈ nodesOf u ((p :: ps) ++ [h]), A w := by
          intro w hw
          rw [nodesOf_append] at hw
          rcases List.mem_append.mp hw with hw | hw
          · exact hap w hw
          · simp at hw; rw [hw]; exact hnxA
        have := hconn_of_semiOpen t u h.nx ((p :: ps) ++ [h]) hv' he' hc' ha' hv2
          (by rw [exitMark_snoc]; exact ho2) htA hy
        exact this
      · -- `a` is a non-collider outside Z: close the section here
        have haZ : a ∉ Z := by
          rw [hex] at ho1
          simp only [condPO, condP, hcol, if_false] at ho1
          exact ho1
        exact HConn.step ⟨p :: ps, by simp, hvp, hep, hcp, hap⟩ haZ fresh

end MG
