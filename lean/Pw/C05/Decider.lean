import Pw.C05.Complete

/-! # C05: the executable deciders used by the harness are the specification

* `isConsistentExt_iff` – the `valid` command (`c05valid`) decides `ConsistentExt`;
* `extDec_iff` – the brute-force search over all orientations of the undirected edges decides the
  existence of a consistent extension. -/
namespace C05
open MG (Anc)

theorem subsetB_iff {α : Type} [BEq α] [LawfulBEq α] {l1 l2 : List α} :
    subsetB l1 l2 = true ↔ ∀ x ∈ l1, x ∈ l2 := by
  simp [subsetB]

theorem adjB'_iff {G : MG} {a b : Nat} : adjB' G a b = true ↔ Adj G a b := by
  simp [adjB', Adj, or_assoc]

theorem mem_vstructs {G : MG} {a c b : Nat} : (a, c, b) ∈ vstructs G ↔ VStruct G a c b := by
  simp only [vstructs, List.mem_flatMap, List.mem_map, List.mem_filter, Bool.and_eq_true, beq_iff_eq,
    bne_iff_ne, Bool.not_eq_true', Prod.mk.injEq]
  constructor
  · rintro ⟨⟨a1, c1⟩, h1, ⟨b2, c2⟩, ⟨h2, ⟨hc, hne⟩, hadj⟩, rfl, rfl, rfl⟩
    simp only at hc hne hadj
    subst hc
    refine ⟨h1, h2, fun h => hne h.symm, ?_⟩
    intro h
    rw [← adjB'_iff, hadj] at h; cases h
  · rintro ⟨h1, h2, hne, hadj⟩
    refine ⟨(a, c), h1, (b, c), ⟨h2, ⟨rfl, fun h => hne h.symm⟩, ?_⟩, rfl, rfl, rfl⟩
    cases h : adjB' G a b with
    | false => rfl
    | true => exact absurd (adjB'_iff.mp h) hadj

theorem anc_congr {D D' : MG} (h : ∀ e, e ∈ D'.dir ↔ e ∈ D.dir) {a b : Nat} (hab : Anc D' a b) : Anc D a b := by
  induction hab with
  | refl => exact Anc.refl _
  | step e _ ih => exact Anc.step ((h _).mp e) ih

theorem acyclic_congr {D D' : MG} (h : ∀ e, e ∈ D'.dir ↔ e ∈ D.dir) (hac : D.Acyclic) : D'.Acyclic :=
  fun a b hab hba => hac a b ((h _).mp hab) (anc_congr h hba)

/-- `ConsistentExt` only depends on the node *set* and the directed-edge *set* of the extension -/
theorem ConsistentExt.congr {P D D' : MG} (h : ConsistentExt P D) (hn : ∀ v, v ∈ D'.nodes ↔ v ∈ D.nodes)
    (hplain : D'.un = [] ∧ D'.bi = [] ∧ D'.circ = []) (hd : ∀ e, e ∈ D'.dir ↔ e ∈ D.dir) :
    ConsistentExt P D' := by
  have hadj : ∀ a b, Adj D' a b ↔ Adj D a b := by
    intro a b
    simp only [Adj, hplain.1, h.plain.1, hd]
  refine ⟨fun v => (hn v).trans (h.nodes v), hplain, acyclic_congr hd h.acyclic,
    fun a b => (hadj a b).trans (h.skel a b), fun e he => (hd e).mpr (h.keeps e he), ?_⟩
  intro a c b
  rw [← h.vstructs a c b]
  simp only [VStruct, hd, hadj]

/-- **the validity check of the harness decides the specification** -/
theorem isConsistentExt_iff (P D : MG) (hp : PWF P) : isConsistentExt P D = true ↔ ConsistentExt P D := by
  constructor
  · intro h
    simp only [isConsistentExt, Bool.and_eq_true, subsetB_iff, List.isEmpty_iff, List.all_eq_true,
      Bool.not_eq_true', List.contains_iff_mem, List.mem_append, adjB'_iff] at h
    obtain ⟨⟨⟨⟨⟨⟨⟨⟨⟨⟨⟨hn1, hn2⟩, hun⟩, hbi⟩, hci⟩, hends⟩, hcyc⟩, hs1⟩, hs2⟩, hkeep⟩, hv1⟩, hv2⟩ := h
    have hwf : D.WF := by
      refine ⟨?_, ?_, ?_⟩
      · intro e he; exact ⟨hn2 _ (hends e he).1, hn2 _ (hends e he).2⟩
      · rw [hbi]; intro e he; cases he
      · rw [hun]; intro e he; cases he
    refine ⟨fun v => ⟨hn1 v, hn2 v⟩, ⟨hun, hbi, hci⟩, (MG.hasCycle_false_iff D hwf).mp hcyc, ?_, hkeep, ?_⟩
    · intro a b
      constructor
      · intro hadj
        simp only [Adj, hun, List.not_mem_nil, or_false] at hadj
        rcases hadj with h1 | h1
        · exact hs1 _ h1
        · exact (hs1 _ h1).symm
      · rintro (h1 | h1 | h1 | h1)
        · exact hs2 _ (Or.inl h1)
        · exact (hs2 _ (Or.inl h1)).symm
        · exact hs2 _ (Or.inr h1)
        · exact (hs2 _ (Or.inr h1)).symm
    · intro a c b
      exact ⟨fun hv => mem_vstructs.mp (hv1 _ (mem_vstructs.mpr hv)),
             fun hv => mem_vstructs.mp (hv2 _ (mem_vstructs.mpr hv))⟩
  · intro h
    have hends : ∀ e ∈ D.dir, e.1 ∈ P.nodes ∧ e.2 ∈ P.nodes := fun e he => ext_edge_nodes hp h he
    have hwf : D.WF := by
      refine ⟨?_, ?_, ?_⟩
      · intro e he; exact ⟨(h.nodes _).mpr (hends e he).1, (h.nodes _).mpr (hends e he).2⟩
      · rw [h.plain.2.1]; intro e he; cases he
      · rw [h.plain.1]; intro e he; cases he
    simp only [isConsistentExt, Bool.and_eq_true, subsetB_iff, List.isEmpty_iff, List.all_eq_true,
      Bool.not_eq_true', List.contains_iff_mem, List.mem_append, adjB'_iff]
    refine ⟨⟨⟨⟨⟨⟨⟨⟨⟨⟨⟨fun v hv => (h.nodes v).mp hv, fun v hv => (h.nodes v).mpr hv⟩, h.plain.1⟩, h.plain.2.1⟩,
      h.plain.2.2⟩, hends⟩, (MG.hasCycle_false_iff D hwf).mpr h.acyclic⟩, ?_⟩, ?_⟩, h.keeps⟩, ?_⟩, ?_⟩
    · intro e he; exact (h.skel _ _).mp (Or.inl he)
    · rintro e (he | he)
      · exact (h.skel _ _).mpr (Or.inl he)
      · exact (h.skel _ _).mpr (Or.inr (Or.inr (Or.inl he)))
    · rintro ⟨a, c, b⟩ hv; exact mem_vstructs.mpr ((h.vstructs a c b).mp (mem_vstructs.mp hv))
    · rintro ⟨a, c, b⟩ hv; exact mem_vstructs.mpr ((h.vstructs a c b).mpr (mem_vstructs.mp hv))

/-! ## orientations -/

theorem map_mem_orientations (f : Nat × Nat → Nat × Nat) (hf : ∀ e, f e = e ∨ f e = (e.2, e.1)) :
    ∀ us : List (Nat × Nat), us.map f ∈ orientations us := by
  intro us
  induction us with
  | nil => simp [orientations]
  | cons e es ih =>
    obtain ⟨a, b⟩ := e
    simp only [orientations, List.map_cons, List.mem_flatMap]
    refine ⟨es.map f, ih, ?_⟩
    rcases hf (a, b) with h | h <;> simp [h]

theorem mem_of_mem_orientation : ∀ (us o : List (Nat × Nat)), o ∈ orientations us →
    ∀ e ∈ o, e ∈ us ∨ (e.2, e.1) ∈ us := by
  intro us
  induction us with
  | nil => intro o ho e he; simp [orientations] at ho; subst ho; cases he
  | cons u us ih =>
    obtain ⟨a, b⟩ := u
    intro o ho e he
    simp only [orientations, List.mem_flatMap, List.mem_cons, List.not_mem_nil, or_false] at ho
    obtain ⟨o', ho', rfl | rfl⟩ := ho
    · rcases List.mem_cons.mp he with rfl | he
      · exact Or.inl List.mem_cons_self
      · rcases ih o' ho' e he with h | h
        · exact Or.inl (List.mem_cons_of_mem _ h)
        · exact Or.inr (List.mem_cons_of_mem _ h)
    · rcases List.mem_cons.mp he with rfl | he
      · exact Or.inr List.mem_cons_self
      · rcases ih o' ho' e he with h | h
        · exact Or.inl (List.mem_cons_of_mem _ h)
        · exact Or.inr (List.mem_cons_of_mem _ h)

theorem orientation_covers : ∀ (us o : List (Nat × Nat)), o ∈ orientations us →
    ∀ e ∈ us, e ∈ o ∨ (e.2, e.1) ∈ o := by
  intro us
  induction us with
  | nil => intro o _ e he; cases he
  | cons u us ih =>
    obtain ⟨a, b⟩ := u
    intro o ho e he
    simp only [orientations, List.mem_flatMap, List.mem_cons, List.not_mem_nil, or_false] at ho
    obtain ⟨o', ho', rfl | rfl⟩ := ho
    · rcases List.mem_cons.mp he with rfl | he
      · exact Or.inl List.mem_cons_self
      · rcases ih o' ho' e he with h | h
        · exact Or.inl (List.mem_cons_of_mem _ h)
        · exact Or.inr (List.mem_cons_of_mem _ h)
    · rcases List.mem_cons.mp he with rfl | he
      · exact Or.inr List.mem_cons_self
      · rcases ih o' ho' e he with h | h
        · exact Or.inl (List.mem_cons_of_mem _ h)
        · exact Or.inr (List.mem_cons_of_mem _ h)

/-- orient every pair of `us` the way `D` has it -/
def orientLike (D : List (Nat × Nat)) (e : Nat × Nat) : Nat × Nat := if D.contains e then e else (e.2, e.1)

theorem no_two_cycle {D : MG} (h : D.Acyclic) {a b : Nat} (hab : (a, b) ∈ D.dir) : (b, a) ∉ D.dir :=
  fun hba => h a b hab (Anc.step hba (Anc.refl a))

/-- a consistent extension is, as an edge set, P's directed edges plus an orientation of its
    undirected edges -/
theorem ext_is_orientation {P D : MG} (h : ConsistentExt P D) :
    ∀ e, e ∈ P.dir ++ P.un.map (orientLike D.dir) ↔ e ∈ D.dir := by
  have hun := h.plain.1
  have adjD : ∀ a b, Adj D a b ↔ ((a, b) ∈ D.dir ∨ (b, a) ∈ D.dir) := by
    intro a b; simp only [Adj, hun, List.not_mem_nil, or_false]
  rintro ⟨a, b⟩
  simp only [List.mem_append, List.mem_map, orientLike, List.contains_iff_mem]
  constructor
  · rintro (he | ⟨⟨u, v⟩, he0, hf⟩)
    · exact h.keeps _ he
    · split at hf
      · rename_i hc; rw [← hf]; exact hc
      · rename_i hc
        simp only [Prod.mk.injEq] at hf
        obtain ⟨rfl, rfl⟩ := hf
        have := (adjD u v).mp ((h.skel u v).mpr (Or.inr (Or.inr (Or.inl he0))))
        rcases this with h1 | h1
        · exact absurd h1 hc
        · exact h1
  · intro he
    have := (h.skel a b).mp ((adjD a b).mpr (Or.inl he))
    rcases this with h1 | h1 | h1 | h1
    · exact Or.inl h1
    · exact absurd (h.keeps _ h1) (no_two_cycle h.acyclic he)
    · exact Or.inr ⟨(a, b), h1, by simp [he]⟩
    · refine Or.inr ⟨(b, a), h1, ?_⟩
      have : (b, a) ∉ D.dir := no_two_cycle h.acyclic he
      simp [this]

/-- **the brute-force oracle of the harness decides existence of a consistent extension** -/
theorem extDec_iff (P : MG) (hp : PWF P) : extDec P = true ↔ ∃ D, ConsistentExt P D := by
  constructor
  · intro h
    simp only [extDec, List.any_eq_true] at h
    obtain ⟨o, _, ho⟩ := h
    exact ⟨_, (isConsistentExt_iff P _ hp).mp ho⟩
  · rintro ⟨D, hD⟩
    simp only [extDec, List.any_eq_true]
    refine ⟨P.un.map (orientLike D.dir), map_mem_orientations _ ?_ _, ?_⟩
    · intro e; unfold orientLike; split
      · exact Or.inl rfl
      · exact Or.inr rfl
    · rw [isConsistentExt_iff P _ hp]
      exact hD.congr (fun v => (hD.nodes v).symm) ⟨rfl, rfl, rfl⟩ (ext_is_orientation hD)

/-- the proved model and the brute-force oracle agree on the property's domain -/
theorem model_eq_extDec (P : MG) (hd : Dom P) : (∃ D, pdagToDag P = .ok D) ↔ extDec P = true := by
  rw [extDec_iff P hd.pwf]
  constructor
  · rintro ⟨D, hD⟩; exact ⟨D, pdagToDag_sound P D hd.pwf hD⟩
  · exact pdagToDag_complete P hd

end C05
