import Pw.T3.LabelJ
open Closure

/-! # Soundness of `label_edges`: edges labelled compelled are compelled

The pattern of the DAG as a graph, its Meek closure `M` (the essential graph, by `T3.meekT3`), and the
proof that every edge labelled compelled is directed in `M`. -/
namespace T3
open C04

open Classical in
/-- the pattern of a DAG: v-structure edges directed, all other edges undirected -/
noncomputable def patt (G : MG) : MG :=
  { nodes := G.nodes
    dir := G.dir.filter fun e => decide (∃ b, C08.VStruct G e.1 e.2 b)
    un := G.dir.filter fun e => decide (¬ ∃ b, C08.VStruct G e.1 e.2 b) }

variable {G : MG} {topo : List Nat}

theorem mem_patt_dir {a c : Nat} : (a, c) ∈ (patt G).dir ↔ ∃ b, C08.VStruct G a c b := by
  simp only [patt, List.mem_filter, decide_eq_true_eq]
  exact ⟨fun h => h.2, fun ⟨b, hv⟩ => ⟨hv.1, b, hv⟩⟩

theorem mem_patt_un {a c : Nat} :
    (a, c) ∈ (patt G).un ↔ (a, c) ∈ G.dir ∧ ¬ ∃ b, C08.VStruct G a c b := by
  simp only [patt, List.mem_filter, decide_eq_true_eq]

theorem patt_isPattern (hd : IsDag G) : C08.IsPattern G (patt G) := by
  refine ⟨rfl, ?_, fun a c => mem_patt_dir, ?_⟩
  · intro a b
    have hun : G.un = [] := hd.plain.1
    simp only [C08.Skel, hun, List.not_mem_nil, or_false, mem_patt_un]
    constructor
    · rintro (h | h | h | h)
      · exact Or.inl (List.mem_filter.mp h).1
      · exact Or.inr (List.mem_filter.mp h).1
      · exact Or.inl h.1
      · exact Or.inr h.1
    · rintro (h | h)
      · by_cases hv : ∃ c, C08.VStruct G a b c
        · exact Or.inl (mem_patt_dir.mpr hv)
        · exact Or.inr (Or.inr (Or.inl ⟨h, hv⟩))
      · by_cases hv : ∃ c, C08.VStruct G b a c
        · exact Or.inr (Or.inl (mem_patt_dir.mpr hv))
        · exact Or.inr (Or.inr (Or.inr ⟨h, hv⟩))
  · intro a b h
    have hv := mem_patt_dir.mp h
    refine ⟨fun u => (mem_patt_un.mp u).2 hv, fun u => ?_⟩
    obtain ⟨c, hc⟩ := hv
    exact no2 hd hc.1 (mem_patt_un.mp u).1

theorem patt_wf (hwf : G.WF) : (patt G).WF := by
  refine ⟨fun e he => hwf.1 e (List.mem_filter.mp he).1, fun e he => (by cases he),
    fun e he => hwf.1 e (List.mem_filter.mp he).1⟩

/-- the essential graph: Meek closure of the pattern -/
noncomputable def ess (G : MG) (topo : List Nat) : MG := C08.meek (patt G) topo

section
variable (hd : IsDag G) (hwf : G.WF) (ht : IsTopo G topo)
include hd hwf ht

theorem ess_essential : C08.IsEssential G (patt G) (ess G topo) :=
  meek_pattern_essential G (patt G) topo ⟨hd.plain.1, hd.acyclic⟩ (patt_isPattern hd) (patt_wf hwf)
    ht.nodup (fun v hv => (ht.nodes v).mpr hv)

theorem ess_ctx : Ctx (ess G topo) G := by
  have hp := patt_isPattern hd
  have st := C08.meek_steps (inner := topo) hp.simple ht.nodup
  have hext := st.ext (C08.ext_of_pattern ⟨hd.plain.1, hd.acyclic⟩ hp)
  refine ⟨st.simple hp.simple, hext, ?_⟩
  show C08.MeekClosed (C08.meek (patt G) topo)
  exact C08.closed_of_pass_false (inner := topo) (st.wf (patt_wf hwf))
    (by rw [st.nodes]; exact fun v hv => (ht.nodes v).mpr hv) (C08.acyclic_of_ext hext)
    (C08.irrefl_of_ext hext) (by rw [C08.meek_fixpoint hp.simple ht.nodup])

theorem ess_chain {w x y : Nat} (e : (w, x) ∈ (ess G topo).dir) (hu : C08.HasUn (ess G topo) x y) :
    (w, y) ∈ (ess G topo).dir := by
  have hp := patt_isPattern hd
  have st := C08.meek_steps (inner := topo) hp.simple ht.nodup
  have hess := ess_essential hd hwf ht
  have hPG := C08.ext_of_pattern ⟨hd.plain.1, hd.acyclic⟩ hp
  refine (ess_ctx hd hwf ht).chain_graph hPG st.nodes.symm (fun a b => (st.skel a b).symm) ?_ ?_ e hu
  · intro a c hac
    obtain ⟨b, hv⟩ := mem_patt_dir.mp hac
    exact ⟨b, (hPG.vstruct a c b).mp hv⟩
  · intro a b hab
    exact ((hess.dirIff a b).mp hab).2

end

/-! ## consequences of closedness used for the three cases of `label_edges` -/
section
open C08
variable {M D : MG}

theorem Ctx.edge_cases (h : Ctx M D) {a b : Nat} (e : (a, b) ∈ D.dir) :
    (a, b) ∈ M.dir ∨ HasUn M a b := by
  rcases skel_cases ((h.ext.skel a b).mp (Or.inl e)) with c | c | c
  · exact Or.inl c
  · exact absurd (h.sub c) (h.asymD e)
  · exact Or.inr c

theorem Ctx.vs_in (h : Ctx M D) {a c b : Nat} (e1 : (a, c) ∈ D.dir) (e2 : (b, c) ∈ D.dir)
    (hab : a ≠ b) (hn : ¬ Skel M a b) : (a, c) ∈ M.dir :=
  ((h.ext.vstruct a c b).mp ⟨e1, e2, hab, fun s => hn ((h.ext.skel a b).mp s)⟩).1

/-- case I: `w -> x` compelled, `w`, `y` non-adjacent, `x` the last parent of `y`: every edge into
    `y` is directed in `M` -/
theorem Ctx.sound_I (h : Ctx M D) {w x y z : Nat} (hwx : (w, x) ∈ M.dir) (hn : ¬ Skel M w y)
    (exy : (x, y) ∈ D.dir) (ezy : (z, y) ∈ D.dir) (hlast : (x, z) ∉ D.dir) : (z, y) ∈ M.dir := by
  have hxy : (x, y) ∈ M.dir := by
    rcases h.edge_cases exy with c | c
    · exact c
    · exact absurd (h.r1 hwx c) hn
  rcases h.edge_cases ezy with c | hu
  · exact c
  exfalso
  by_cases hzx : z = x
  · subst hzx; exact h.dir_not_un hxy hu
  by_cases hs : Skel M z x
  · have ezx : (z, x) ∈ D.dir := by
      rcases ext_dir_of_skel h.ext hs with c | c
      · exact c
      · exact absurd c hlast
    rcases h.edge_cases ezx with c | c
    · exact h.r2 c hxy hu
    · rcases skel_cases (h.r1 hwx c.symm) with d | d | d
      · exact hn (h.r1 d hu)
      · exact h.r2 d hwx c
      · have hwy : w ≠ y := by
          rintro rfl; exact h.asymD (h.sub hwx) exy
        exact h.r4 hwy d.symm hwx hxy hn hu
  · exact h.dir_not_un (h.vs_in ezy exy hzx hs) hu

/-- case II: `x -> y <- z0` is a v-structure, `x` the last parent of `y`: every edge into `y` is
    directed in `M` -/
theorem Ctx.sound_II (h : Ctx M D) {x y z0 z : Nat} (exy : (x, y) ∈ D.dir) (ez0 : (z0, y) ∈ D.dir)
    (hne : z0 ≠ x) (hn : ¬ Skel M z0 x) (ezy : (z, y) ∈ D.dir) (hlast : (x, z) ∉ D.dir) :
    (z, y) ∈ M.dir := by
  have hn' : ¬ Skel M x z0 := fun s => hn s.symm
  have hxy : (x, y) ∈ M.dir := h.vs_in exy ez0 (Ne.symm hne) hn'
  have hz0y : (z0, y) ∈ M.dir := h.vs_in ez0 exy hne hn
  rcases h.edge_cases ezy with c | hu
  · exact c
  exfalso
  by_cases hzx : z = x
  · subst hzx; exact h.dir_not_un hxy hu
  by_cases hzz : z = z0
  · subst hzz; exact h.dir_not_un hz0y hu
  by_cases hs : Skel M z x
  · have ezx : (z, x) ∈ D.dir := by
      rcases ext_dir_of_skel h.ext hs with c | c
      · exact c
      · exact absurd c hlast
    rcases h.edge_cases ezx with c | c
    · exact h.r2 c hxy hu
    · by_cases hs0 : Skel M z z0
      · rcases skel_cases hs0 with d | d | d
        · exact h.r2 d hz0y hu
        · exact hn (h.r1 d c)
        · exact h.r3 (Ne.symm hne) c d hxy hz0y hn' hu
      · exact h.dir_not_un (h.vs_in ezy ez0 hzz hs0) hu
  · exact h.dir_not_un (h.vs_in ezy exy hzx hs) hu

end

/-- every edge labelled compelled is directed in the essential graph -/
theorem cp_in_ess (hd : IsDag G) (hwf : G.WF) (ht : IsTopo G topo) :
    ∀ (n : Nat) (z y : Nat), pos topo y < n → Cp G topo z y → (z, y) ∈ (ess G topo).dir := by
  have h := ess_ctx hd hwf ht
  intro n
  induction n with
  | zero => intro z y hy; cases hy
  | succ n ih =>
    intro z y hy hcp
    obtain ⟨x, hc⟩ := labels_char G topo ht hcp.1
    have hpx : pos topo x < pos topo y := ht.forward x y hc.xy
    have hlast : ∀ z', (z', y) ∈ G.dir → (x, z') ∉ G.dir := by
      intro z' hz' e
      have h1 := ht.forward x z' e
      have h2 := hc.last z' hz'
      omega
    have ihx : ∀ w, Cp G topo w x → (w, x) ∈ (ess G topo).dir := fun w hw => ih w x (by omega) hw
    rcases hc.cases with ⟨⟨w, hw, hnwy⟩, _⟩ | ⟨_, ⟨z0, hz0y, hz0x, hnz0x⟩, _⟩ | ⟨hp, _, hall⟩
    · have hn : ¬ C08.Skel (ess G topo) w y := by
        intro s
        rcases C08.ext_dir_of_skel h.ext s with c | c
        · exact hnwy c
        · have h1 := ht.forward y w c
          have h2 := ht.forward w x hw.1
          omega
      exact h.sound_I (ihx w hw) hn hc.xy hcp.1 (hlast z hcp.1)
    · have hn : ¬ C08.Skel (ess G topo) z0 x := by
        intro s
        rcases C08.ext_dir_of_skel h.ext s with c | c
        · exact hnz0x c
        · exact hlast z0 hz0y c
      exact h.sound_II hc.xy hz0y hz0x hn hcp.1 (hlast z hcp.1)
    · have hcx : Cp G topo z x := by
        apply Classical.byContradiction
        intro hn
        exact not_cp_rv hcp ⟨hcp.1, (hall z hcp.1).2 hn⟩
      have hzx := ihx z hcx
      rcases h.edge_cases hc.xy with c | c
      · rcases h.edge_cases hcp.1 with d | d
        · exact d
        · exact absurd d (h.r2 hzx c)
      · exact ess_chain hd hwf ht hzx c

/-- a DAG Markov equivalent to `G`, with `G`'s node list, is a consistent extension of the pattern -/
theorem ext_patt_of_markov (hd : IsDag G) {D' : MG} (hd' : IsDag D') (hm : MarkovEquiv G D') :
    C08.ConsistentExt (patt G) { D' with nodes := G.nodes } := by
  have hp := patt_isPattern hd
  refine ⟨rfl, hd'.plain.1, ?_, ?_, ?_, ?_⟩
  · intro a b e hba
    exact hd'.acyclic a b e (C08.anc_mono (G := { D' with nodes := G.nodes }) (D := D') (fun _ he => he) hba)
  · intro a b
    exact (hm.skel a b).trans (hp.skel a b).symm
  · rintro ⟨a, c⟩ he
    obtain ⟨b, hv⟩ := mem_patt_dir.mp he
    exact ((hm.vstructs a c b).mpr hv).1
  · intro a c b
    exact (hm.vstructs a c b).trans
      ((C08.ext_of_pattern ⟨hd.plain.1, hd.acyclic⟩ hp).vstruct a c b)

/-- **soundness of `label_edges`**: an edge labelled compelled is compelled -/
theorem cp_compelled (hd : IsDag G) (hwf : G.WF) (ht : IsTopo G topo) {a b : Nat}
    (hc : Cp G topo a b) : Compelled G a b := by
  have hin := cp_in_ess hd hwf ht _ a b (Nat.lt_succ_self _) hc
  have hcomp := (((ess_essential hd hwf ht).dirIff a b).mp hin).2
  intro D' hd' hm
  exact hcomp { D' with nodes := G.nodes } (ext_patt_of_markov hd hd' hm)

/-- **Chickering's theorem** (`C04.T3`): `label_edges` labels an edge compelled iff it is compelled -/
theorem c04_T3 : C04.T3 := by
  intro G topo hd hwf _ ht a b he
  constructor
  · intro hl; exact cp_compelled hd hwf ht ⟨he, hl⟩
  · intro hc
    rcases cp_or_rv (topo := topo) he with h | h
    · exact h.2
    · exact absurd hc (rv_not_compelled ht hd h)

end T3
