import Pw.C03.Table
import Pw.C03.Lift
/-! C03 — the property theorems: the 64-state and 8-state tables lifted to graphs, bulk calls, histories and
the constructor.  No size bound anywhere: graphs are arbitrary pair maps, histories arbitrary lists. -/
namespace C03

theorem soundP : Sound semP (fun s => GoodP s = true) where
  swapP := fun s h => by rw [show PairState.swap s = s.swap from rfl, GoodP_swap]; exact h
  emptyP := by decide
  add_good := addP_good
  add_reject := addP_reject
  remove_good := removeP_good
  remove_reject := removeP_reject
  rs_good := removeSilentP_good
  rs_reject := removeSilentP_reject
  orient_good := orientP_good
  orient_reject := orientP_reject
  valid_iff := fun s => by rw [show semP.isValid s = isValidP s from rfl, isValidP_eq_good]

theorem soundC : Sound semC (fun s => GoodC s = true) where
  swapP := fun s h => by rw [show PairState.swap s = s.swap from rfl, GoodC_swap]; exact h
  emptyP := by decide
  add_good := addC_good
  add_reject := addC_reject
  remove_good := removeC_good
  remove_reject := removeC_reject
  rs_good := removeSilentC_good
  rs_reject := removeSilentC_reject
  orient_good := orientC_good
  orient_reject := orientC_reject
  valid_iff := fun s => by rw [show semC.isValid s = isValidC s from rfl, isValidC_eq_good]

/-! ### orientation at graph level -/

theorem orient_graph {σ : Type} [PairState σ] {M : Sem σ} {P : σ → Prop} (hS : Sound M P)
    {OrientOnly : σ → σ → Prop}
    (honly : ∀ s, P s → (M.orient s).2 = false → OrientOnly s (M.orient s).1)
    (g : PairMap σ) (u v : Nat) (h : PairMap.All P g) (huv : u ≠ v)
    (ha : (step M g (.orient u v)).2 = false) :
    OrientOnly (g.rd u v) ((step M g (.orient u v)).1.rd u v) ∧
      ∀ a b, (a, b) ≠ PairMap.key u v → (step M g (.orient u v)).1 a b = g a b := by
  constructor
  · show OrientOnly (g.rd u v) ((g.wr u v (M.orient (g.rd u v)).1).rd u v)
    rw [PairMap.rd_wr]
    exact honly _ (PairMap.All.rd hS.swapP h u v huv) ha
  · intro a b hab
    exact step_other g (.orient u v) a b (by intro e he; simp [Op.pairs] at he; subst he; exact hab)

/-- "a mutation that would break this raises", at graph level -/
theorem add_rejects {σ : Type} [PairState σ] {M : Sem σ} {P : σ → Prop} (hS : Sound M P)
    (store : ET → σ → σ) (t : ET)
    (hex : ∀ s, P s → (M.add t s).2 = false → P (store t s))
    (g : PairMap σ) (u v : Nat) (h : PairMap.All P g) (huv : u ≠ v)
    (hbad : ¬ P (store t (g.rd u v))) : (step M g (.add t u v)).2 = true := by
  show (M.add t (g.rd u v)).2 = true
  cases hr : (M.add t (g.rd u v)).2 with
  | true => rfl
  | false => exact absurd (hex _ (PairMap.All.rd hS.swapP h u v huv) hr) hbad

/-! ### the property -/

/-- **C03 for PAG / AugmentedPAG** (model = spec, all graphs, all operations) -/
theorem C03_pag : Holds GoodP OrientOnlyP rawAddP (fun t => t ≠ .all ∧ t ≠ .other) (step semP) isValidP where
  preserved := fun _ op h hop => step_All soundP h op hop
  rejects := fun g t u v h ht huv hbad =>
    add_rejects soundP rawAddP t (fun s hs ha => (addP_exact t ht.1 ht.2 s hs).1 ha) g u v h huv
      (by simp [hbad])
  atomic := fun _ op h hl hr => step_reject soundP h op hl hr
  valid := fun s => by rw [isValidP_eq_good]
  orient_only := fun g u v h huv ha => orient_graph soundP orientP_only g u v h huv ha
  frame := fun g op a b h => step_other g op a b h

/-- **C03 for CPDAG** -/
theorem C03_cpdag : Holds GoodC OrientOnlyC rawAddC (fun t => t = .directed ∨ t = .undirected)
    (step semC) isValidC where
  preserved := fun _ op h hop => step_All soundC h op hop
  rejects := fun g t u v h ht huv hbad =>
    add_rejects soundC rawAddC t (fun s hs ha => (addC_exact t ht s hs).1 ha) g u v h huv
      (by simp [hbad])
  atomic := fun _ op h hl hr => step_reject soundC h op hl hr
  valid := fun s => by rw [isValidC_eq_good]
  orient_only := fun g u v h huv ha => orient_graph soundC orientC_only g u v h huv ha
  frame := fun g op a b h => step_other g op a b h

/-- every history on a PAG that starts without contradictory marks ends without them — and so does
    every prefix, the list being arbitrary -/
theorem C03_pag_history (g : PairMap PBits) (ops : List Op) (h : InvP g) (hops : ∀ op ∈ ops, op.NoAll) :
    InvP (run semP g ops) ∧ ∀ a b, a < b → isValidP (run semP g ops a b) = true :=
  have hi := run_All soundP ops g h hops
  ⟨hi, fun a b hab => valid_of_All soundP hi a b hab⟩

theorem C03_cpdag_history (g : PairMap CBits) (ops : List Op) (h : InvC g) (hops : ∀ op ∈ ops, op.NoAll) :
    InvC (run semC g ops) ∧ ∀ a b, a < b → isValidC (run semC g ops a b) = true :=
  have hi := run_All soundC ops g h hops
  ⟨hi, fun a b hab => valid_of_All soundC hi a b hab⟩

/-! ### constructor from edge lists -/

theorem storeAll_emp_outside {σ : Type} [PairState σ] (raw : σ → σ) (g : PairMap σ) (es : List (Nat × Nat))
    (a b : Nat) (h : ∀ e ∈ es, (a, b) ≠ PairMap.key e.1 e.2) (hg : g a b = PairState.empty) :
    storeAll raw g es a b = PairState.empty := by
  rw [storeAll_other raw a b es h g]; exact hg

/-- the PAG constructor's validity check accepts the stored lists iff no pair carries
    contradictory marks (the ADMG base class additionally demands an acyclic directed layer, which
    only rejects more) -/
theorem C03_pag_ctor (D B U C : List (Nat × Nat)) (hl : ∀ e ∈ D ++ B ++ U ++ C, e.1 ≠ e.2) :
    ctorOk semP (ofListsP D B U C) (D ++ B ++ U ++ C) = true ↔ InvP (ofListsP D B U C) := by
  apply ctorOk_iff_All soundP _ _ hl
  intro a b _ hout
  have hD : ∀ e ∈ D, (a, b) ≠ PairMap.key e.1 e.2 := fun e he => hout e (by simp [he])
  have hB : ∀ e ∈ B, (a, b) ≠ PairMap.key e.1 e.2 := fun e he => hout e (by simp [he])
  have hU : ∀ e ∈ U, (a, b) ≠ PairMap.key e.1 e.2 := fun e he => hout e (by simp [he])
  have hC : ∀ e ∈ C, (a, b) ≠ PairMap.key e.1 e.2 := fun e he => hout e (by simp [he])
  unfold ofListsP
  exact storeAll_emp_outside _ _ C a b hC (storeAll_emp_outside _ _ U a b hU
    (storeAll_emp_outside _ _ B a b hB (storeAll_emp_outside _ _ D a b hD rfl)))

theorem C03_cpdag_ctor (D U : List (Nat × Nat)) (hl : ∀ e ∈ D ++ U, e.1 ≠ e.2) :
    ctorOk semC (ofListsC D U) (D ++ U) = true ↔ InvC (ofListsC D U) := by
  apply ctorOk_iff_All soundC _ _ hl
  intro a b _ hout
  have hD : ∀ e ∈ D, (a, b) ≠ PairMap.key e.1 e.2 := fun e he => hout e (by simp [he])
  have hU : ∀ e ∈ U, (a, b) ≠ PairMap.key e.1 e.2 := fun e he => hout e (by simp [he])
  unfold ofListsC
  exact storeAll_emp_outside _ _ U a b hU (storeAll_emp_outside _ _ D a b hD rfl)

/-- constructor + any history: every graph reachable from an accepted constructor call -/
theorem C03_pag_reachable (D B U C : List (Nat × Nat)) (hl : ∀ e ∈ D ++ B ++ U ++ C, e.1 ≠ e.2)
    (hc : ctorOk semP (ofListsP D B U C) (D ++ B ++ U ++ C) = true)
    (ops : List Op) (hops : ∀ op ∈ ops, op.NoAll) : InvP (run semP (ofListsP D B U C) ops) :=
  (C03_pag_history _ ops ((C03_pag_ctor D B U C hl).1 hc) hops).1

theorem C03_cpdag_reachable (D U : List (Nat × Nat)) (hl : ∀ e ∈ D ++ U, e.1 ≠ e.2)
    (hc : ctorOk semC (ofListsC D U) (D ++ U) = true)
    (ops : List Op) (hops : ∀ op ∈ ops, op.NoAll) : InvC (run semC (ofListsC D U) ops) :=
  (C03_cpdag_history _ ops ((C03_cpdag_ctor D U hl).1 hc) hops).1

/-! ### non-vacuity: the hypotheses are satisfiable by non-trivial inputs, and the interesting
branches are really taken -/

-- a constructor call that is accepted: 0 o-> 1, 1 <-> 2, 0 -- 2
example : ctorOk semP (ofListsP [(0, 1)] [(1, 2)] [(0, 2)] [(1, 0)]) ([(0, 1)] ++ [(1, 2)] ++ [(0, 2)] ++ [(1, 0)]) = true := by
  decide
-- one that is rejected: 0 -> 1 together with 0 <-> 1
example : ctorOk semP (ofListsP [(0, 1)] [(1, 0)] [] []) ([(0, 1)] ++ [(1, 0)] ++ [] ++ []) = false := by decide
-- a bulk call whose members contradict one another is rejected and changes nothing
example : (step semP PairMap.emp (.addBulk .directed [(0, 1), (2, 1), (1, 0)])).2 = true := by decide
example : (step semP PairMap.emp (.addBulk .directed [(0, 1), (2, 1), (1, 0)])).1 0 1 = PBits.empty := by decide
example : (step semC PairMap.emp (.addBulk .directed [(0, 1), (1, 0)])).2 = true := by decide
-- a bulk call with duplicated members and a reversed undirected member is accepted
example : (step semP PairMap.emp (.addBulk .circle [(0, 1), (1, 0), (0, 1)])).2 = false := by decide
-- orient on 0 <-o 1 (asked for the mark at 1 … i.e. circle (0,1) with directed (1,0)) gives 0 <-> 1
example : ((step semP (ofListsP [(1, 0)] [] [] [(0, 1)]) (.orient 0 1)).1 0 1) = ⟨false, false, false, false, true, false⟩ := by decide
-- the guard really rejects something from a Good state, and really accepts something
example : (addP .directed ⟨false, false, true, false, false, false⟩).2 = true := by decide
example : (addP .directed ⟨false, false, false, true, false, false⟩).2 = false := by decide

end C03
