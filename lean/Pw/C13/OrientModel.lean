import Pw.C13.Model

/-! # C13/C03 — model of `StationaryTimeSeriesCPDAG.orient_uncertain_edge`, CPDAG histories

```python
def orient_uncertain_edge(self, u, v):
    if not self.has_edge(u, v, self._undirected_name):
        raise RuntimeError(...)
    u, v = sorted([u, v], key=lambda x: x[1])   # earlier node first, stable
    self.remove_edge(u, v, self._undirected_name)
    self.add_edge(u, v, self._directed_name)      # through the mark guard
```
(definitions only – imported by the native driver; the theorems are in `Pw/C13/Orient.lean`) -/
namespace C13

/-- `sorted([u, v], key=lambda x: x[1])` -/
def sortTime (u v : TNode) : TNode × TNode := if v.2 < u.2 then (v, u) else (u, v)

def orientCpdag (s : St) (u v : TNode) : St × Bool :=
  if !hasUnd (layerEdges s 1) u v then (s, true) else
  let p := sortTime u v
  let r := removeEdge cfgCpdag s (.one 1) p.1 p.2
  if r.2 then (r.1, true) else addEdge cfgCpdag r.1 (.one 0) p.1 p.2

/-- public operations of the StationaryTimeSeriesCPDAG -/
inductive COp
  | op (o : Op)
  | orient (u v : TNode)
  deriving Repr

def cstep (s : St) : COp → St × Bool
  | .op o => step cfgCpdag s o
  | .orient u v => orientCpdag s u v

def crun : St → List COp → List (St × Bool)
  | _, [] => []
  | s, op :: ops => let r := cstep s op; r :: crun r.1 ops

end C13
