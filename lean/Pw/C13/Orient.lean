import Pw.C13.CpdagInv
import Pw.C13.OrientModel

/-! # C13/C03 — `StationaryTimeSeriesCPDAG.orient_uncertain_edge` and CPDAG histories

```python
def orient_uncertain_edge(self, u, v):
    if not self.has_edge(u, v, self._undirected_name):
        raise RuntimeError(...)
    u, v = sorted([u, v], key=lambda x: x[1])   # earlier node first, stable
    self.remove_edge(u, v, self._undirected_name)
    self.add_edge(u, v, self._directed_name)      # through the mark guard
```

The model (`Pw/C13/OrientModel.lean`) composes the public `remove_edge` / `add_edge` of the C13 model in
the same order; nothing is assumed about the intermediate state (if the guarded `add_edge` raised, the undirected edge would stay
removed – `orient_atomic` proves that this does not happen in a state satisfying the invariant).
`COp` adds the operation to the histories of the CPDAG. -/
namespace C13

/-- calling convention (see `Op.CpdagSafe`); `orient_uncertain_edge` names two different nodes -/
def COp.Safe : COp → Prop
  | .op o => o.CpdagSafe
  | .orient u v => u ≠ v

theorem sortTime_ne {u v : TNode} (h : u ≠ v) : (sortTime u v).1 ≠ (sortTime u v).2 := by
  unfold sortTime
  split
  · exact fun hh => h hh.symm
  · exact h

/-- the invariant survives `orient_uncertain_edge`, raised or not -/
theorem cinv_orient {s : St} (h : CInv s) (u v : TNode) (huv : u ≠ v) : CInv (orientCpdag s u v).1 := by
  unfold orientCpdag
  split
  · exact h
  · simp only
    have h1 := cinv_removeEdge h (.one 1) (sortTime u v).1 (sortTime u v).2
    split
    · exact h1
    · exact cinv_addEdge h1 0 _ _ (sortTime_ne huv)

theorem cinv_cstep {s : St} (h : CInv s) (op : COp) (hop : op.Safe) : CInv (cstep s op).1 := by
  cases op with
  | op o => exact cinv_step h o hop
  | orient u v => exact cinv_orient h u v hop

theorem cinv_crun : ∀ (ops : List COp) (s : St), CInv s → (∀ op ∈ ops, op.Safe) →
    ∀ r ∈ crun s ops, CInv r.1
  | [], _, _, _, r, hr => by simp [crun] at hr
  | op :: ops, s, h, hops, r, hr => by
    simp only [crun, List.mem_cons] at hr
    have h1 := cinv_cstep h op (hops op (List.mem_cons_self ..))
    rcases hr with rfl | hr
    · exact h1
    · exact cinv_crun ops _ h1 (fun o ho => hops o (List.mem_cons_of_mem _ ho)) r hr

/-! ## `orient_uncertain_edge` is atomic in a state satisfying the invariant -/

theorem canonUnd_swap (e : Edge) : canonUnd (swap e) = canonUnd e := by
  obtain ⟨⟨x, a⟩, ⟨y, b⟩⟩ := e
  by_cases hab : a = b
  · exact (canonUnd_swap_of_eq_lag (e := ((x, a), (y, b))) hab).symm
  · unfold canonUnd swap
    simp only
    by_cases hlt : a < b
    · have h1 : ¬ b < a := by omega
      have h2 : ¬ (b = a ∧ x < y) := by omega
      simp [hlt, h1, h2]
    · have h1 : b < a := by omega
      have h2 : ¬ (a = b ∧ y < x) := by omega
      simp [hlt, h1, h2]

/-- a canonical edge inside the window is among its own copies -/
theorem self_mem_copies_und {m : Nat} {e : Edge} (h1 : (canonUnd e).1.2 ≤ m) :
    canonUnd e ∈ copies .und m e := by
  rw [mem_copies_und]
  have h2 := canonUnd_forward e
  generalize canonUnd e = c at h1 h2 ⊢
  obtain ⟨⟨x, a⟩, ⟨y, b⟩⟩ := c
  simp only at h1 h2 ⊢
  refine ⟨b, by omega, ?_⟩
  simp only [Prod.mk.injEq, true_and, and_true]
  omega

/-- an accepted `add_edge` between two present nodes -/
theorem addEdgeMixed_present {cfg : Cfg} {t : St} {sel : Sel} {u v : TNode}
    (hg : guardBad cfg t sel u v = false) (hu : hasNode t u = true) (hv : hasNode t v = true)
    (hs : selOk t.layers.length sel = true) (hok : okEdge t.maxLag u v = true) :
    addEdgeMixed cfg t sel u v =
      ({ t with layers := mapSel sel (·.add t.maxLag u v) 0 t.layers }, false) := by
  have e1 : ensureNode t u = some t := by simp [ensureNode, hu]
  have e2 : ensureNode t v = some t := by simp [ensureNode, hv]
  simp only [addEdgeMixed, hg, e1, e2, hs, hok, Bool.false_eq_true, if_false, Bool.not_true]

/-- what `orient_uncertain_edge` does in a state satisfying the invariant: it raises (and changes
nothing) iff there is no undirected edge between `u` and `v`; otherwise all homologous copies of the
undirected edge are removed and the directed edge earlier → later is added with all its copies -/
theorem orient_spec {s : St} (h : CInv s) (u v : TNode) :
    (hasUnd (layerEdges s 1) u v = false ∧ orientCpdag s u v = (s, true)) ∨
    (hasUnd (layerEdges s 1) u v = true ∧
      orientCpdag s u v = ({ s with layers :=
        [⟨.dir, union (layerEdges s 0)
            (copies .dir s.maxLag (toNode (sortTime u v).1, toNode (sortTime u v).2))⟩,
         ⟨.und, diff (layerEdges s 1)
            (copies .und s.maxLag (toNode (sortTime u v).1, toNode (sortTime u v).2))⟩] }, false)) := by
  cases hund : hasUnd (layerEdges s 1) u v with
  | false => left; exact ⟨rfl, by simp [orientCpdag, hund]⟩
  | true =>
    right
    refine ⟨rfl, ?_⟩
    have hl := h.2.1.layers
    obtain ⟨⟨_, _, _, _⟩, ⟨hEU, _, hFU, hCU⟩⟩ := h.layerInv
    have hCU := hCU rfl
    simp only at hEU hFU hCU
    -- the sorted pair (a, b): still joined by an undirected edge, nodes present, a not later than b
    have key : ∀ a b : TNode, hasUnd (layerEdges s 1) a b = true → ¬ b.2 < a.2 →
        removeEdge cfgCpdag s (.one 1) a b = ({ s with layers :=
          [⟨.dir, layerEdges s 0⟩, ⟨.und, diff (layerEdges s 1) (copies .und s.maxLag (toNode a, toNode b))⟩] }, false) ∧
        addEdge cfgCpdag { s with layers :=
          [⟨.dir, layerEdges s 0⟩, ⟨.und, diff (layerEdges s 1) (copies .und s.maxLag (toNode a, toNode b))⟩] }
          (.one 0) a b = ({ s with layers :=
          [⟨.dir, union (layerEdges s 0) (copies .dir s.maxLag (toNode a, toNode b))⟩,
           ⟨.und, diff (layerEdges s 1) (copies .und s.maxLag (toNode a, toNode b))⟩] }, false) := by
      intro a b hab hle
      -- facts from the undirected edge
      have hfacts : a.2 ≤ 0 ∧ b.2 ≤ 0 ∧
          ((toNode a, toNode b) ∈ layerEdges s 1 ∨ (toNode b, toNode a) ∈ layerEdges s 1) := by
        simp only [hasUnd, hasDir, Bool.or_eq_true, Bool.and_eq_true, decide_eq_true_eq,
          List.contains_eq_mem] at hab
        rcases hab with ⟨⟨h1, h2⟩, h3⟩ | ⟨⟨h1, h2⟩, h3⟩
        · exact ⟨h1, h2, Or.inl h3⟩
        · exact ⟨h2, h1, Or.inr h3⟩
      obtain ⟨ha0, hb0, hmem⟩ := hfacts
      have hna : toNode a ∈ s.nodes ∧ toNode b ∈ s.nodes := by
        rcases hmem with hm | hm
        · exact hEU _ hm
        · exact ⟨(hEU _ hm).2, (hEU _ hm).1⟩
      have hwa : lag a ≤ s.maxLag := (h.1.1 (toNode a).1 (toNode a).2 hna.1).1
      have hwb : lag b ≤ s.maxLag := (h.1.1 (toNode b).1 (toNode b).2 hna.2).1
      have hva : valid s.maxLag a = true := by simp [valid, ha0, hwa]
      have hvb : valid s.maxLag b = true := by simp [valid, hb0, hwb]
      constructor
      · simp only [removeEdge, cfgCpdag, if_true, hva, hvb]
        rw [hl]
        simp [selOk, mapSel, selHas, Layer.remove, layerEdges]
      · -- the stored form of the undirected edge is the canonical one, and it has been removed
        have hcanon : ∀ e : Edge, (e = (toNode a, toNode b) ∨ e = (toNode b, toNode a)) →
            e ∈ layerEdges s 1 → e ∈ copies .und s.maxLag (toNode a, toNode b) := by
          intro e he hin
          have hc : canonUnd (toNode a, toNode b) = e := by
            rcases he with rfl | rfl
            · exact hCU _ hin
            · have := hCU _ hin
              rw [← canonUnd_swap] at this
              exact this
          have hw : (canonUnd (toNode a, toNode b)).1.2 ≤ s.maxLag := by
            rw [hc]
            rcases he with rfl | rfl
            · exact hwa
            · exact hwb
          have := self_mem_copies_und (m := s.maxLag) (e := (toNode a, toNode b)) hw
          rwa [hc] at this
        have hg : guardBad cfgCpdag ({ s with layers :=
            [⟨.dir, layerEdges s 0⟩, ⟨.und, diff (layerEdges s 1) (copies .und s.maxLag (toNode a, toNode b))⟩] } : St)
            (.one 0) a b = false := by
          simp only [guardBad, cfgCpdag, hasUnd, hasDir_eq ha0 hb0, hasDir_eq hb0 ha0, Bool.or_eq_false_iff,
            List.contains_eq_mem, decide_eq_false_iff_not, layerEdges, List.getD_cons_zero,
            List.getD_cons_succ]
          refine ⟨⟨fun hh => ?_, fun hh => ?_⟩, fun hh => ?_⟩
          · obtain ⟨h1, h2⟩ := mem_diff.1 hh
            exact h2 (hcanon _ (Or.inl rfl) h1)
          · obtain ⟨h1, h2⟩ := mem_diff.1 hh
            exact h2 (hcanon _ (Or.inr rfl) h1)
          · obtain ⟨_, h2, h3⟩ := h.2.2 _ _ hh
            rcases hmem with hm | hm
            · exact h3 hm
            · exact h2 hm
        have hok : okEdge s.maxLag a b = true := by
          simp only [okEdge, hva, hvb, Bool.and_true, Bool.true_and, Bool.not_eq_true',
            decide_eq_false_iff_not]
          exact hle
        have hha : hasNode ({ s with layers :=
            [⟨.dir, layerEdges s 0⟩, ⟨.und, diff (layerEdges s 1) (copies .und s.maxLag (toNode a, toNode b))⟩] } : St)
            a = true := by simp [hasNode, ha0, hna.1]
        have hhb : hasNode ({ s with layers :=
            [⟨.dir, layerEdges s 0⟩, ⟨.und, diff (layerEdges s 1) (copies .und s.maxLag (toNode a, toNode b))⟩] } : St)
            b = true := by simp [hasNode, hb0, hna.2]
        have := addEdgeMixed_present (cfg := cfgCpdag) hg hha hhb (by simp [selOk]) hok
        rw [show addEdge cfgCpdag _ (.one 0) a b = addEdgeMixed cfgCpdag _ (.one 0) a b from rfl, this]
        simp [mapSel, selHas, Layer.add]
    -- apply to the sorted pair
    have hs : hasUnd (layerEdges s 1) (sortTime u v).1 (sortTime u v).2 = true ∧
        ¬ (sortTime u v).2.2 < (sortTime u v).1.2 := by
      unfold sortTime
      split
      · rename_i hlt
        refine ⟨?_, by simp only; omega⟩
        simp only [hasUnd] at hund ⊢
        rw [Bool.or_comm]; exact hund
      · rename_i hlt
        exact ⟨hund, hlt⟩
    obtain ⟨k1, k2⟩ := key _ _ hs.1 hs.2
    simp only [orientCpdag, hund, Bool.not_true, Bool.false_eq_true, if_false, k1, k2]

/-- an undirected edge between `a` and `b`: both are nodes of the graph inside the window -/
theorem hasUnd_facts {s : St} (h : CInv s) {a b : TNode} (hab : hasUnd (layerEdges s 1) a b = true) :
    a.2 ≤ 0 ∧ b.2 ≤ 0 ∧ lag a ≤ s.maxLag ∧ lag b ≤ s.maxLag ∧
      ((toNode a, toNode b) ∈ layerEdges s 1 ∨ (toNode b, toNode a) ∈ layerEdges s 1) := by
  obtain ⟨_, ⟨hEU, _, _, _⟩⟩ := h.layerInv
  simp only at hEU
  have hfacts : a.2 ≤ 0 ∧ b.2 ≤ 0 ∧
      ((toNode a, toNode b) ∈ layerEdges s 1 ∨ (toNode b, toNode a) ∈ layerEdges s 1) := by
    simp only [hasUnd, hasDir, Bool.or_eq_true, Bool.and_eq_true, decide_eq_true_eq,
      List.contains_eq_mem] at hab
    rcases hab with ⟨⟨h1, h2⟩, h3⟩ | ⟨⟨h1, h2⟩, h3⟩
    · exact ⟨h1, h2, Or.inl h3⟩
    · exact ⟨h2, h1, Or.inr h3⟩
  obtain ⟨ha0, hb0, hmem⟩ := hfacts
  have hna : toNode a ∈ s.nodes ∧ toNode b ∈ s.nodes := by
    rcases hmem with hm | hm
    · exact hEU _ hm
    · exact ⟨(hEU _ hm).2, (hEU _ hm).1⟩
  exact ⟨ha0, hb0, (h.1.1 (toNode a).1 (toNode a).2 hna.1).1, (h.1.1 (toNode b).1 (toNode b).2 hna.2).1, hmem⟩

theorem hasUnd_sortTime {E : List Edge} {u v : TNode} (h : hasUnd E u v = true) :
    hasUnd E (sortTime u v).1 (sortTime u v).2 = true ∧ ¬ (sortTime u v).2.2 < (sortTime u v).1.2 := by
  unfold sortTime
  split
  · rename_i hlt
    refine ⟨?_, by simp only; omega⟩
    simp only [hasUnd] at h ⊢
    rw [Bool.or_comm]; exact h
  · rename_i hlt
    exact ⟨h, hlt⟩

/-- **atomic**: a raising `orient_uncertain_edge` leaves the graph exactly as it was -/
theorem orient_atomic {s : St} (h : CInv s) (u v : TNode) (hr : (orientCpdag s u v).2 = true) :
    (orientCpdag s u v).1 = s := by
  rcases orient_spec h u v with ⟨_, h2⟩ | ⟨_, h2⟩
  · rw [h2]
  · rw [h2] at hr; simp at hr

/-- a raising operation of a CPDAG history changes no edge list and not max_lag -/
theorem cstep_rejected {s : St} (h : CInv s) (op : COp) (hr : (cstep s op).2 = true) :
    (cstep s op).1.layers = s.layers ∧ (cstep s op).1.maxLag = s.maxLag := by
  cases op with
  | op o => exact step_rejected cfgCpdag s o hr
  | orient u v =>
    have := orient_atomic h u v hr
    simp only [cstep] at this ⊢
    rw [this]; exact ⟨rfl, rfl⟩

/-- an addition rejected *by the mark guard* leaves the whole state (nodes included) as it was -/
theorem addEdge_guard_rejected (s : St) (sel : Sel) (u v : TNode)
    (hg : guardBad cfgCpdag s sel u v = true) : addEdge cfgCpdag s sel u v = (s, true) := by
  rw [show addEdge cfgCpdag s sel u v = addEdgeMixed cfgCpdag s sel u v from rfl]
  unfold addEdgeMixed
  rw [if_pos hg]

end C13
