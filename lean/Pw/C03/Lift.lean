import Pw.C03.Model
/-! C03 — lifting the pair tables to graphs and histories (generic in the class semantics `M`).

Nothing here mentions the guards: the hypotheses are exactly the table theorems (`Sound`), so the
lifting holds for whatever guard text the translator produces as long as the tables re-check. -/
namespace C03
open PairState

variable {σ : Type} [PairState σ]

namespace PairMap

theorem wr_rd (g : PairMap σ) (u v : Nat) : wr g u v (rd g u v) = g := by
  funext a b
  unfold wr rd
  by_cases h : u < v
  · simp only [h, if_true]; split
    · rename_i hab; rw [hab.1, hab.2]
    · rfl
  · simp only [h, if_false]; split
    · rename_i hab; rw [hab.1, hab.2, swap_swap]
    · rfl

theorem All.wr' {P : σ → Prop} (hsw : ∀ s, P s → P (swap s)) {g : PairMap σ} (h : All P g)
    (u v : Nat) (s : σ) (hs : u ≠ v → P s) : All P (PairMap.wr g u v s) := by
  by_cases huv : u = v
  · intro a b hab
    unfold PairMap.wr
    subst huv
    have : ¬ (a = u ∧ b = u) := fun ⟨h1, h2⟩ => by omega
    simp [this]; exact h a b hab
  · exact PairMap.All.wr hsw h u v s (hs huv)

end PairMap

/-- the pair tables of one class, as hypotheses -/
structure Sound (M : Sem σ) (P : σ → Prop) : Prop where
  swapP : ∀ s, P s → P (swap s)
  emptyP : P (empty : σ)
  add_good : ∀ t, t ≠ .all → ∀ s, P s → (M.add t s).2 = false → P (M.add t s).1
  add_reject : ∀ t s, (M.add t s).2 = true → (M.add t s).1 = s
  remove_good : ∀ t s, P s → P (M.remove t s).1
  remove_reject : ∀ t s, (M.remove t s).2 = true → (M.remove t s).1 = s
  rs_good : ∀ t s, P s → P (M.removeSilent t s).1
  rs_reject : ∀ t s, (M.removeSilent t s).2 = true → (M.removeSilent t s).1 = s
  orient_good : ∀ s, P s → P (M.orient s).1
  orient_reject : ∀ s, P s → (M.orient s).2 = true → (M.orient s).1 = s
  valid_iff : ∀ s, M.isValid s = true ↔ P s

section lifting
variable {M : Sem σ} {P : σ → Prop}

theorem applyAt_All (hsw : ∀ s, P s → P (swap s)) {f : σ → σ × Bool} (hf : ∀ s, P s → P (f s).1)
    {g : PairMap σ} (h : PairMap.All P g) (u v : Nat) : PairMap.All P (applyAt f g u v).1 := by
  unfold applyAt
  exact PairMap.All.wr' hsw h u v _ (fun huv => hf _ (PairMap.All.rd hsw h u v huv))

theorem bulk_All (hsw : ∀ s, P s → P (swap s)) {f : σ → σ × Bool} (hf : ∀ s, P s → P (f s).1)
    {g0 : PairMap σ} (h0 : PairMap.All P g0) (es : List (Nat × Nat)) :
    ∀ g : PairMap σ, PairMap.All P g → PairMap.All P (bulk f g0 g es).1 := by
  induction es with
  | nil => intro g h; exact h
  | cons e es ih =>
    intro g h
    rcases e with ⟨u, v⟩
    unfold bulk
    by_cases hr : (applyAt f g u v).2 = true
    · simp only [hr, if_true]; exact h0
    · simp only [hr]; exact ih _ (applyAt_All hsw hf h u v)

theorem applyAt_reject {f : σ → σ × Bool} (g : PairMap σ) (u v : Nat)
    (hrej : (f (g.rd u v)).2 = true → (f (g.rd u v)).1 = g.rd u v)
    (hr : (applyAt f g u v).2 = true) : (applyAt f g u v).1 = g := by
  unfold applyAt at hr ⊢
  simp only at hr ⊢
  rw [hrej hr, PairMap.wr_rd]

theorem bulk_reject {f : σ → σ × Bool} (g0 : PairMap σ) (es : List (Nat × Nat)) :
    ∀ g : PairMap σ, (bulk f g0 g es).2 = true → (bulk f g0 g es).1 = g0 := by
  induction es with
  | nil => intro g h; simp [bulk] at h
  | cons e es ih =>
    intro g h
    rcases e with ⟨u, v⟩
    unfold bulk at h ⊢
    by_cases hr : (applyAt f g u v).2 = true
    · simp [hr]
    · simp only [hr] at h ⊢; exact ih _ h

theorem applyAt_other {f : σ → σ × Bool} (g : PairMap σ) (u v a b : Nat)
    (h : (a, b) ≠ PairMap.key u v) : (applyAt f g u v).1 a b = g a b := by
  unfold applyAt; exact PairMap.wr_other g u v _ a b h

theorem bulk_other {f : σ → σ × Bool} (g0 : PairMap σ) (a b : Nat) (es : List (Nat × Nat))
    (h : ∀ e ∈ es, (a, b) ≠ PairMap.key e.1 e.2) :
    ∀ g : PairMap σ, g a b = g0 a b → (bulk f g0 g es).1 a b = g0 a b := by
  induction es with
  | nil => intro g hg; exact hg
  | cons e es ih =>
    intro g hg
    rcases e with ⟨u, v⟩
    unfold bulk
    by_cases hr : (applyAt f g u v).2 = true
    · simp [hr]
    · simp only [hr]
      apply ih (fun e he => h e (List.mem_cons_of_mem _ he))
      rw [applyAt_other g u v a b (h (u, v) (List.mem_cons_self))]; exact hg

/-- **invariant step**: an operation that does not add with 'all' keeps every pair `P` -/
theorem step_All (hS : Sound M P) {g : PairMap σ} (h : PairMap.All P g) (op : Op) (hop : op.NoAll) :
    PairMap.All P (step M g op).1 := by
  have addOk : ∀ t, t ≠ .all → ∀ s, P s → P (M.add t s).1 := by
    intro t ht s hs
    by_cases hr : (M.add t s).2 = true
    · rw [hS.add_reject t s hr]; exact hs
    · exact hS.add_good t ht s hs (by simpa using hr)
  cases op with
  | add t u v => exact applyAt_All hS.swapP (addOk t hop) h u v
  | addBulk t es =>
    show PairMap.All P (if M.known t then bulk (M.add t) g g es else (g, true)).1
    split
    · exact bulk_All hS.swapP (addOk t hop) h es g h
    · exact h
  | remove t u v => exact applyAt_All hS.swapP (hS.remove_good t) h u v
  | removeBulk t es =>
    show PairMap.All P (if M.known t then bulk (M.removeSilent t) g g es else (g, true)).1
    split
    · exact bulk_All hS.swapP (hS.rs_good t) h es g h
    · exact h
  | orient u v => exact applyAt_All hS.swapP hS.orient_good h u v

/-- **a rejected mutation leaves the graph exactly as it was** (also for 'all') -/
theorem step_reject (hS : Sound M P) {g : PairMap σ} (h : PairMap.All P g) (op : Op) (hl : op.NoLoop)
    (hr : (step M g op).2 = true) : (step M g op).1 = g := by
  cases op with
  | add t u v => exact applyAt_reject g u v (hS.add_reject t _) hr
  | addBulk t es =>
    simp only [step] at hr ⊢
    split
    · rename_i hk; simp only [hk, if_true] at hr; exact bulk_reject g es g hr
    · rfl
  | remove t u v => exact applyAt_reject g u v (hS.remove_reject t _) hr
  | removeBulk t es =>
    simp only [step] at hr ⊢
    split
    · rename_i hk; simp only [hk, if_true] at hr; exact bulk_reject g es g hr
    · rfl
  | orient u v =>
    have huv : u ≠ v := hl (u, v) (by simp [Op.pairs])
    exact applyAt_reject g u v (hS.orient_reject _ (PairMap.All.rd hS.swapP h u v huv)) hr

/-- **frame**: an operation touches only the pairs it names -/
theorem step_other (g : PairMap σ) (op : Op) (a b : Nat)
    (h : ∀ e ∈ op.pairs, (a, b) ≠ PairMap.key e.1 e.2) : (step M g op).1 a b = g a b := by
  cases op with
  | add t u v => exact applyAt_other g u v a b (h (u, v) (by simp [Op.pairs]))
  | addBulk t es =>
    simp only [step]; split
    · exact bulk_other g a b es h g rfl
    · rfl
  | remove t u v => exact applyAt_other g u v a b (h (u, v) (by simp [Op.pairs]))
  | removeBulk t es =>
    simp only [step]; split
    · exact bulk_other g a b es h g rfl
    · rfl
  | orient u v => exact applyAt_other g u v a b (h (u, v) (by simp [Op.pairs]))

/-- **every history**: the invariant holds after any sequence of operations (hence, the list
    being arbitrary, after every prefix, i.e. in every reachable graph) -/
theorem run_All (hS : Sound M P) (ops : List Op) :
    ∀ g : PairMap σ, PairMap.All P g → (∀ op ∈ ops, op.NoAll) → PairMap.All P (run M g ops) := by
  induction ops with
  | nil => intro g h _; exact h
  | cons op ops ih =>
    intro g h hops
    unfold run
    exact ih _ (step_All hS h op (hops op List.mem_cons_self))
      (fun o ho => hops o (List.mem_cons_of_mem _ ho))

/-- `is_valid_mec_graph` accepts a graph iff the invariant holds (pairwise) -/
theorem valid_of_All (hS : Sound M P) {g : PairMap σ} (h : PairMap.All P g) (a b : Nat) (hab : a < b) :
    M.isValid (g a b) = true := (hS.valid_iff _).2 (h a b hab)

/-! ### constructor -/

theorem storeAll_other (raw : σ → σ) (a b : Nat) (es : List (Nat × Nat))
    (h : ∀ e ∈ es, (a, b) ≠ PairMap.key e.1 e.2) :
    ∀ g : PairMap σ, storeAll raw g es a b = g a b := by
  induction es with
  | nil => intro g; rfl
  | cons e es ih =>
    intro g
    rcases e with ⟨u, v⟩
    unfold storeAll
    rw [ih (fun e he => h e (List.mem_cons_of_mem _ he))]
    exact PairMap.wr_other g u v _ a b (h (u, v) List.mem_cons_self)

theorem key_fst_lt {u v : Nat} (h : u ≠ v) : (PairMap.key u v).1 < (PairMap.key u v).2 := by
  unfold PairMap.key; split <;> simp <;> omega

theorem key_of_lt {a b : Nat} (h : a < b) : PairMap.key a b = (a, b) := by
  unfold PairMap.key; simp [h]

theorem rd_key (g : PairMap σ) {u v : Nat} (h : u ≠ v) :
    g.rd (PairMap.key u v).1 (PairMap.key u v).2 = g (PairMap.key u v).1 (PairMap.key u v).2 := by
  unfold PairMap.rd; simp [key_fst_lt h]

/-- the constructor check passes iff every named pair is `P`; if in addition every pair outside
    `keys` is empty, iff the whole graph satisfies the invariant -/
theorem ctorOk_iff_All (hS : Sound M P) (g : PairMap σ) (keys : List (Nat × Nat))
    (hl : ∀ e ∈ keys, e.1 ≠ e.2)
    (hout : ∀ a b, a < b → (∀ e ∈ keys, (a, b) ≠ PairMap.key e.1 e.2) → g a b = empty) :
    ctorOk M g keys = true ↔ PairMap.All P g := by
  unfold ctorOk
  rw [List.all_eq_true]
  constructor
  · intro h a b hab
    by_cases hin : ∃ e ∈ keys, (a, b) = PairMap.key e.1 e.2
    · rcases hin with ⟨e, he, hk⟩
      have := (hS.valid_iff _).1 (h e he)
      rw [rd_key g (hl e he), ← hk] at this
      exact this
    · rw [hout a b hab (fun e he hk => hin ⟨e, he, hk⟩)]; exact hS.emptyP
  · intro h e he
    rw [rd_key g (hl e he)]
    exact (hS.valid_iff _).2 (h _ _ (key_fst_lt (hl e he)))

end lifting
end C03
