import Pw.C16.Base
import Pw.Core.Closure
open Closure

/-! # C16 model: `pywhy_graphs/algorithms/semi_directed_paths.py`, `possible_ancestors` /
`possible_descendants` (`algorithms/pag.py`) via `single_source_shortest_mixed_path`
(`algorithms/generic.py`)

The model mirrors the code *after* the repair `fix: arrowhead test in the cutoff branch of
_all_semi_directed_paths_graph`.

Abstractions (recorded, validated by the correspondence run):
* `G.neighbors(v)` is a Python `set`; the model lists the neighbours in node order.  Only the
  multiset of yielded paths is compared, never their order.
* the iterative DFS keeps `visited` (an insertion-ordered dict = the current path) and a stack of
  neighbour iterators; the model is the equivalent recursion on the number `rem` of edges that may
  still be appended: the code's test `len(visited) < cutoff` is `rem ≥ 2`, `len(visited) == cutoff`
  is `rem = 1` (invariant `len(visited) + rem = cutoff + 1`).  `Pw/C16/Machine.lean` contains the loop
  itself as a state machine (`C16.run`) and the proof that it terminates with exactly the yields of this
  recursion (`C16.run_refines_dfs`), so this abstraction is a theorem, not an assumption.
* `single_source_shortest_mixed_path` is a level-synchronous BFS whose `paths` dict doubles as the
  visited set; only its key set is used by the callers, which is the worklist closure
  (`Pw/C16/LevelBfs.lean`: the level loop written out, `C16.mem_possibleLoop_desc/_anc` prove it returns
  the same set). -/
namespace C16

/-- `G.has_edge(u, v)` with `edge_type="any"`: directional in the `DiGraph` layers (directed, circle),
    symmetric in the `Graph` layers (bidirected, undirected) -/
def HasEdgeAny (G : MG) (u v : Nat) : Prop :=
  (u, v) ∈ G.dir ∨ (u, v) ∈ G.circ ∨ (u, v) ∈ G.bi ∨ (v, u) ∈ G.bi ∨ (u, v) ∈ G.un ∨ (v, u) ∈ G.un

instance (G : MG) (u v : Nat) : Decidable (HasEdgeAny G u v) := by unfold HasEdgeAny; infer_instance

/-- the `for idx in range(len(nodes) - 1)` loop of `is_semi_directed_path` -/
def edgesOK (G : MG) : List Nat → Bool
  | u :: v :: rest =>
    if Arrow G v u then false            -- has_edge(v,u,directed) or has_edge(v,u,bidirected)
    else if ¬ HasEdgeAny G u v then false -- elif not G.has_edge(u, v)
    else edgesOK G (v :: rest)
  | _ => true

/-- `is_semi_directed_path(G, nodes)` -/
def isSemiDirectedPath (G : MG) (nodes : List Nat) : Bool :=
  match nodes with
  | [] => false
  | [a] => decide (a ∈ G.nodes)
  | _ =>
    if ¬ (∀ n ∈ nodes, n ∈ G.nodes) then false
    else if ¬ nodes.Nodup then false       -- len(set(nodes)) != len(nodes)
    else edgesOK G nodes

/-- the first `if … : continue` of the DFS loop: an arrowhead at `prev` on the edge to `nbr`, and
    `nbr` not visited -/
def skip (G : MG) (vis : List Nat) (prev nbr : Nat) : Bool :=
  decide (Arrow G nbr prev) && decide (nbr ∉ vis)

/-- the DFS of `_all_semi_directed_paths_graph`.  `prev :: before` is `visited` in reverse order,
    `rem` the number of edges that may still be appended. -/
def dfs (G : MG) (T : List Nat) : Nat → Nat → List Nat → List (List Nat)
  | 0, _, _ => []
  | 1, prev, before =>
    -- `len(visited) == cutoff`: the first neighbour that is not skipped triggers the final sweep
    -- over itself and the rest of the iterator; then the frame is popped
    match (nbrs G prev).dropWhile (skip G (prev :: before) prev) with
    | [] => []
    | nbr :: rest =>
      ((nbr :: rest).filter fun t =>
          decide (t ∈ T) && decide (t ∉ prev :: before) && !decide (Arrow G t prev)).map
        fun t => (t :: prev :: before).reverse
  | rem + 2, prev, before =>
    -- `len(visited) < cutoff`
    (nbrs G prev).flatMap fun nbr =>
      if skip G (prev :: before) prev nbr then []
      else if nbr ∈ prev :: before then []
      else
        (if nbr ∈ T then [(nbr :: prev :: before).reverse] else []) ++
        (if T.any (fun t => decide (t ∉ nbr :: prev :: before)) then dfs G T (rem + 1) nbr (prev :: before)
         else [])

/-- `if cutoff is None: cutoff = len(G) - 1` -/
def cutoffOf (G : MG) : Option Nat → Nat
  | none => G.nodes.length - 1
  | some c => c

/-- `all_semi_directed_paths(G, source, target, cutoff)` with `targets = T` (`{target}` for a node).
    `none` is returned for `NodeNotFound` (source not in `G`). -/
def allSemiDirectedPaths (G : MG) (s : Nat) (T : List Nat) (cutoff : Option Nat) : Option (List (List Nat)) :=
  if s ∉ G.nodes then none
  else if s ∈ T then some []
  else
    let c := cutoffOf G cutoff
    if c < 1 then some [] else some (dfs G T c s [])

/-- `_possibly_directed(G, i, j, reverse)` as called by the BFS with `i` the current node and `j` a
    neighbour of `i` (so the initial `i not in G.neighbors(j)` test never fires; it is kept) -/
def possiblyDirected (G : MG) (reverse : Bool) (i j : Nat) : Bool :=
  if i ∉ nbrs G j then false
  else
    let directCheck := if reverse then decide ((i, j) ∈ G.dir) else decide ((j, i) ∈ G.dir)
    if directCheck || decide ((i, j) ∈ G.bi ∨ (j, i) ∈ G.bi) then false else true

/-- one BFS expansion of `_single_shortest_path_early_stop` -/
def pdStep (G : MG) (reverse : Bool) (v : Nat) : List Nat :=
  (nbrs G v).filter fun w => possiblyDirected G reverse v w

/-- `possible_descendants(G, s)` -/
def possibleDescendants (G : MG) (s : Nat) : List Nat := closure G.nodes (pdStep G false) [s]
/-- `possible_ancestors(G, s)` -/
def possibleAncestors (G : MG) (s : Nat) : List Nat := closure G.nodes (pdStep G true) [s]

end C16
