#!/venv/bin/python
"""usage: tools/harmless_checks.py harmless/<id>/patch.diff -> the checks whose property is anchored in a touched file"""
import re, sys
MAP = [("causal/m_separation.py", "C01 C11 C12 C06 C15"), ("mixed_edge_moral.py", "C12 C11 C15"), ("causal/convert.py", "C10 C15"),
       ("algorithms/cyclic.py", "C19 C15"), ("algorithms/generic.py", "C03 C06 C07 C13 C16 C20 C15"),
       ("semi_directed_paths.py", "C16 C15"), ("algorithms/cpdag.py", "C04 C05 C09 C15"),
       ("algorithms/pag.py", "C08 C09 C16 C17 C18 C15"), ("networkx/classes/mixededge.py", "C02 C03 C13 C20 C01 C14"),
       ("classes/augmented.py", "C20 C03"), ("classes/timeseries", "C13 C03 C14"), ("export/", "C14"),
       ("classes/admg.py", "C02 C03 C13 C14 C20 C07"), ("classes/cpdag.py", "C03 C13 C14 C05 C08"),
       ("classes/pag.py", "C03 C13 C14 C20 C16 C18"), ("classes/base.py", "C02 C03 C08 C16"),
       ("algorithms/multidomain.py", "C20")]
files = re.findall(r"^diff --git a/(\S+)", open(sys.argv[1]).read(), re.M)
out = []
for f in files:
    for k, cs in MAP:
        if k in f:
            out += cs.split()
print(" ".join(sorted(set(out))))
