import Pw.C19.Scc
open Closure MG

/-! # C19: the brute-force decider of sigma-separation is the declarative definition -/
namespace C19

theorem mem_hopsFrom {G : MG} {a : Nat} {h : Hop} :
    h ∈ hopsFrom G a ↔ HasEdge G a h.nx h.mp h.mn := by
  obtain ⟨mp, mn, nx⟩ := h
  simp only [hopsFrom, List.mem_append, List.mem_map, mem_children, mem_parents, spouses, unbrs,
    mem_sym, HasEdge, Hop.mk.injEq]
  constructor
  · rintro (((⟨w, hw, rfl, rfl, rfl⟩ | ⟨w, hw, rfl, rfl, rfl⟩) | ⟨w, hw, rfl, rfl, rfl⟩) |
      ⟨w, hw, rfl, rfl, rfl⟩)
    · exact Or.inl ⟨rfl, rfl, hw⟩
    · exact Or.inr (Or.inl ⟨rfl, rfl, hw⟩)
    · exact Or.inr (Or.inr (Or.inl ⟨rfl, rfl, hw⟩))
    · exact Or.inr (Or.inr (Or.inr ⟨rfl, rfl, hw⟩))
  · rintro (⟨rfl, rfl, h⟩ | ⟨rfl, rfl, h⟩ | ⟨rfl, rfl, h⟩ | ⟨rfl, rfl, h⟩)
    · exact Or.inl (Or.inl (Or.inl ⟨nx, h, rfl, rfl, rfl⟩))
    · exact Or.inl (Or.inl (Or.inr ⟨nx, h, rfl, rfl, rfl⟩))
    · exact Or.inl (Or.inr ⟨nx, h, rfl, rfl, rfl⟩)
    · exact Or.inr ⟨nx, h, rfl, rfl, rfl⟩

/-- `pathsFrom` enumerates exactly the simple walks of bounded length that avoid `vis` -/
theorem mem_pathsFrom (G : MG) : ∀ (f : Nat) (vis : List Nat) (a : Nat) (hs : List Hop),
    hs ∈ pathsFrom G f vis a ↔
      ValidW G a hs ∧ hs.length ≤ f ∧ (hs.map (·.nx)).Nodup ∧ ∀ h ∈ hs, h.nx ∉ vis
  | 0, vis, a, hs => by
    simp only [pathsFrom, List.mem_singleton, Nat.le_zero, List.length_eq_zero_iff]
    constructor
    · rintro rfl; simp [ValidW]
    · rintro ⟨_, h, _⟩; exact h
  | f + 1, vis, a, [] => by simp [pathsFrom, ValidW]
  | f + 1, vis, a, h :: t => by
    simp only [pathsFrom, List.mem_cons, List.mem_flatMap, List.mem_filter, List.mem_map,
      decide_eq_true_eq, ValidW, List.length_cons, List.map_cons, List.nodup_cons,
      reduceCtorEq, false_or]
    constructor
    · rintro ⟨h', ⟨hh, hv⟩, t', ht', heq⟩
      injection heq with e1 e2
      subst e1; subst e2
      obtain ⟨i1, i2, i3, i4⟩ := (mem_pathsFrom G f _ _ _).mp ht'
      refine ⟨⟨mem_hopsFrom.mp hh, i1⟩, by omega, ⟨?_, i3⟩, ?_⟩
      · intro hm
        obtain ⟨h'', hh'', e⟩ := hm
        exact i4 h'' hh'' (by rw [e]; exact List.mem_cons_self)
      · rintro h'' (rfl | hh'')
        · exact hv
        · exact fun hm => i4 h'' hh'' (List.mem_cons_of_mem _ hm)
    · rintro ⟨⟨j1, j2⟩, j3, ⟨j4, j5⟩, j6⟩
      refine ⟨h, ⟨mem_hopsFrom.mpr j1, j6 h (Or.inl rfl)⟩, t, ?_, rfl⟩
      apply (mem_pathsFrom G f _ _ _).mpr
      refine ⟨j2, by omega, j5, ?_⟩
      intro h'' hh'' hm
      rcases List.mem_cons.mp hm with e | hm
      · exact j4 ⟨h'', hh'', e⟩
      · exact j6 h'' (Or.inr hh'') hm

theorem validW_nodes {G : MG} (hwf : G.WF) : ∀ (hs : List Hop) (a : Nat), ValidW G a hs →
    ∀ h ∈ hs, h.nx ∈ G.nodes
  | [], _, _, h, hh => by cases hh
  | h0 :: t, a, hv, h, hh => by
    rcases List.mem_cons.mp hh with rfl | hh
    · exact HasEdge.mem_nodes hwf hv.1
    · exact validW_nodes hwf t h0.nx hv.2 h hh

theorem sigmaCondB_iff {G : MG} (hwf : G.WF) {Z : List Nat} (hZ : ∀ z ∈ Z, z ∈ G.nodes)
    {u v w : Nat} (hu : u ∈ G.nodes) (hv : v ∈ G.nodes) (hw : w ∈ G.nodes) (mi mo : Mark) :
    sigmaCondB G Z (G.anc Z) u mi v mo w = true ↔ sigmaCond G Z u mi v mo w := by
  unfold sigmaCondB sigmaCond
  by_cases hc : mi = .head ∧ mo = .head
  · simp only [hc, and_self, if_true, decide_eq_true_eq, mem_anc hwf hZ]
  · simp only [hc, if_false, Bool.or_eq_true, Bool.and_eq_true, decide_eq_true_eq, bne_iff_ne, ne_eq,
      scB_iff hwf hv hw, scB_iff hwf hv hu]
    constructor
    · rintro (h | ⟨h1, h2⟩)
      · exact Or.inl h
      · refine Or.inr ⟨fun e => ?_, fun e => ?_⟩
        · rcases h1 with h | h
          · exact absurd e h
          · exact h
        · rcases h2 with h | h
          · exact absurd e h
          · exact h
    · rintro (h | ⟨h1, h2⟩)
      · exact Or.inl h
      · refine Or.inr ⟨?_, ?_⟩
        · by_cases e : mo = .tail
          · exact Or.inr (h1 e)
          · exact Or.inl e
        · by_cases e : mi = .tail
          · exact Or.inr (h2 e)
          · exact Or.inl e

theorem openSigB_iff {G : MG} (hwf : G.WF) {Z : List Nat} (hZ : ∀ z ∈ Z, z ∈ G.nodes) :
    ∀ (hs : List Hop) (e : Option (Nat × Mark)) (a : Nat), a ∈ G.nodes →
      (∀ u m, e = some (u, m) → u ∈ G.nodes) → ValidW G a hs →
      (openSigB G Z (G.anc Z) e a hs = true ↔ OpenSig G Z e a hs)
  | [], e, a, _, _, _ => by cases e <;> simp [openSigB, OpenSig]
  | h :: t, none, a, ha, _, hv => by
    simp only [openSigB, OpenSig]
    exact openSigB_iff hwf hZ t _ _ (HasEdge.mem_nodes hwf hv.1)
      (fun u m e => by injection e with e; injection e with e1 _; subst e1; exact ha) hv.2
  | h :: t, some (u, m), a, ha, hu, hv => by
    simp only [openSigB, OpenSig, Bool.and_eq_true]
    have hn := HasEdge.mem_nodes hwf hv.1
    rw [sigmaCondB_iff hwf hZ (hu u m rfl) ha hn,
      openSigB_iff hwf hZ t _ _ hn
        (fun u m e => by injection e with e; injection e with e1 _; subst e1; exact ha) hv.2]

/-- **the decider is the definition**: `sigmaSepDec` answers `true` exactly when every path between
    X and Y is sigma-blocked by Z -/
theorem sigmaSepDec_iff {G : MG} (hwf : G.WF) {X Y Z : List Nat} (hX : ∀ x ∈ X, x ∈ G.nodes)
    (hZ : ∀ z ∈ Z, z ∈ G.nodes) :
    sigmaSepDec G X Y Z = true ↔ SigmaSep G X Y Z := by
  unfold sigmaSepDec SigmaSep
  simp only [List.all_eq_true, Bool.not_eq_true', List.any_eq_false, Bool.and_eq_true, beq_iff_eq,
    not_and, Bool.not_eq_true]
  constructor
  · intro h x hx y hy ⟨hs, hv, hend, hnd, ho⟩
    have hxn := hX x hx
    have hmem : hs ∈ pathsFrom G G.nodes.length [x] x := by
      apply (mem_pathsFrom G _ _ _ _).mpr
      simp only [nodesOf, List.nodup_cons] at hnd
      refine ⟨hv, ?_, hnd.2, ?_⟩
      · have hsub : hs.map (·.nx) ⊆ G.nodes := by
          intro v hv'
          obtain ⟨h', hh', rfl⟩ := List.mem_map.mp hv'
          exact validW_nodes hwf hs x hv h' hh'
        have := List.Nodup.length_le_of_subset hnd.2 hsub
        simpa using this
      · intro h' hh' hm
        simp at hm
        exact hnd.1 (List.mem_map.mpr ⟨h', hh', hm⟩)
    have := h x hx y hy hs hmem hend
    rw [← Bool.not_eq_true, openSigB_iff hwf hZ hs none x hxn (by intro u m e; cases e) hv] at this
    exact this ho
  · intro h x hx y hy hs hmem hend
    obtain ⟨hv, _, hnd, havoid⟩ := (mem_pathsFrom G _ _ _ _).mp hmem
    rw [← Bool.not_eq_true, openSigB_iff hwf hZ hs none x (hX x hx) (by intro u m e; cases e) hv]
    intro ho
    apply h x hx y hy
    refine ⟨hs, hv, hend, ?_, ho⟩
    simp only [nodesOf, List.nodup_cons]
    refine ⟨?_, hnd⟩
    intro hm
    obtain ⟨h', hh', e⟩ := List.mem_map.mp hm
    exact havoid h' hh' (by simp [e])

end C19
