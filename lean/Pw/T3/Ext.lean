import Pw.T3.Elim
open Closure

/-! # T3, part 4: orientations of a v-structure-free set of nodes

`ExtOn G A E`: the relation `E` orients exactly the skeleton edges inside `A`, keeps the directed
edges of `G`, is acyclic (has a rank function) and has no unshielded collider. -/
namespace T3
open C08 MG

variable {G D : MG}

structure ExtOn (G : MG) (A : List Nat) (E : Nat → Nat → Prop) : Prop where
  dom : ∀ x y, E x y → x ∈ A ∧ y ∈ A ∧ Skel G x y
  total : ∀ x ∈ A, ∀ y ∈ A, Skel G x y → E x y ∨ E y x
  keeps : ∀ x ∈ A, ∀ y ∈ A, (x, y) ∈ G.dir → E x y
  rank : ∃ r : Nat → Nat, ∀ x y, E x y → r y < r x
  nocoll : ∀ x y z, E x z → E y z → x ≠ y → Skel G x y

theorem extOn_nil (G : MG) : ExtOn G [] (fun _ _ => False) :=
  ⟨fun _ _ e => False.elim e, fun _ hx => (by cases hx), fun _ hx => (by cases hx),
   ⟨fun _ => 0, fun _ _ e => False.elim e⟩, fun _ _ _ e => False.elim e⟩

/-- put an eligible sink `t` below an orientation of `A − t` -/
theorem Ctx.add_sink (h : Ctx G D) {A : List Nat} {t : Nat} (ht : Elig G A t) {E : Nat → Nat → Prop}
    (hE : ExtOn G (rm A t) E) :
    ExtOn G A (fun x y => E x y ∨ (y = t ∧ x ∈ A ∧ x ≠ t ∧ Skel G x t)) := by
  refine ⟨?_, ?_, ?_, ?_, ?_⟩
  · rintro x y (e | ⟨rfl, hx, _, hs⟩)
    · obtain ⟨a, b, c⟩ := hE.dom x y e
      exact ⟨(mem_rm.mp a).1, (mem_rm.mp b).1, c⟩
    · exact ⟨hx, ht.1.1, hs⟩
  · intro x hx y hy hs
    by_cases hxt : x = t
    · by_cases hyt : y = t
      · subst hxt; subst hyt; exact absurd hs (h.irrefl _)
      · exact Or.inr (Or.inr ⟨hxt, hy, hyt, hxt ▸ hs.symm⟩)
    · by_cases hyt : y = t
      · exact Or.inl (Or.inr ⟨hyt, hx, hxt, hyt ▸ hs⟩)
      · rcases hE.total x (mem_rm.mpr ⟨hx, hxt⟩) y (mem_rm.mpr ⟨hy, hyt⟩) hs with e | e
        · exact Or.inl (Or.inl e)
        · exact Or.inr (Or.inl e)
  · intro x hx y hy e
    by_cases hyt : y = t
    · have hxt : x ≠ t := by
        rintro rfl; subst hyt; exact h.irrefl _ (skel_of_dir e)
      exact Or.inr ⟨hyt, hx, hxt, hyt ▸ skel_of_dir e⟩
    · by_cases hxt : x = t
      · exact absurd (hxt ▸ e) (ht.1.2 y hy)
      · exact Or.inl (hE.keeps x (mem_rm.mpr ⟨hx, hxt⟩) y (mem_rm.mpr ⟨hy, hyt⟩) e)
  · obtain ⟨r, hr⟩ := hE.rank
    refine ⟨fun x => if x = t then 0 else r x + 1, ?_⟩
    rintro x y (e | ⟨rfl, _, hxt, _⟩)
    · obtain ⟨a, b, _⟩ := hE.dom x y e
      have := hr x y e
      simp only [if_neg (mem_rm.mp a).2, if_neg (mem_rm.mp b).2]
      omega
    · simp only [if_neg hxt, if_true]
      omega
  · rintro x y z (e1 | ⟨rfl, hx, _, hs1⟩) (e2 | ⟨hz, hy, _, hs2⟩) hxy
    · exact hE.nocoll x y z e1 e2 hxy
    · exact absurd hz (mem_rm.mp (hE.dom x z e1).2.1).2
    · exact absurd rfl (mem_rm.mp (hE.dom y z e2).2.1).2
    · exact ht.2 x hx y hy hs1.symm hs2.symm hxy

/-- **both orientations inside a v-structure-free set**: `A` has an orientation, and for every
    undirected edge `a - b` inside `A` one that contains `b -> a` -/
theorem Ctx.ext_rel (h : Ctx G D) : ∀ (n : Nat) (A : List Nat), A.length ≤ n → NoV G A →
    (∃ E, ExtOn G A E) ∧ ∀ a ∈ A, ∀ b ∈ A, HasUn G a b → ∃ E, ExtOn G A E ∧ E b a := by
  intro n
  induction n with
  | zero =>
    intro A hlen _
    have : A = [] := List.eq_nil_of_length_eq_zero (Nat.le_zero.mp hlen)
    subst this
    exact ⟨⟨_, extOn_nil G⟩, fun a ha => by cases ha⟩
  | succ n ih =>
    intro A hlen hv
    have hl : ∀ {s}, s ∈ A → (rm A s).length ≤ n := fun hs => by
      have := length_rm_lt hs
      omega
    constructor
    · by_cases hA : A = []
      · subst hA; exact ⟨_, extOn_nil G⟩
      · obtain ⟨s, hs⟩ := h.exists_elig hv hA
        obtain ⟨E, hE⟩ := (ih (rm A s) (hl hs.1.1) (hv.rm s)).1
        exact ⟨_, h.add_sink hs hE⟩
    · intro a ha b hb hab
      have hne : a ≠ b := by
        rintro rfl; exact h.irrefl _ hab.skel
      obtain ⟨t0, ht0, hr⟩ := h.reach_sink ha
      have ht0b : t0 ≠ b := by
        rintro rfl
        rcases hr with e | hr
        · exact hne e
        · exact h.chain (tc_drIn_dr hr) hab
      obtain ⟨t, htE, htb⟩ := h.qc (n + 1) A hlen hv (fun v => v = b)
        (fun u w hu hw huw => absurd (hu.trans hw.symm) huw) t0 ht0 ht0b
      by_cases hta : t = a
      · subst hta
        obtain ⟨E, hE⟩ := (ih (rm A t) (hl htE.1.1) (hv.rm t)).1
        exact ⟨_, h.add_sink htE hE, Or.inr ⟨rfl, hb, fun e => htb e.symm, hab.symm.skel⟩⟩
      · obtain ⟨E, hE, hba⟩ := (ih (rm A t) (hl htE.1.1) (hv.rm t)).2 a
          (mem_rm.mpr ⟨ha, fun e => hta e.symm⟩) b (mem_rm.mpr ⟨hb, fun e => htb e.symm⟩) hab
        exact ⟨_, h.add_sink htE hE, Or.inl hba⟩

end T3
