"""C05: pdag_to_dag returns a consistent extension exactly when one exists (and the two round-trip
consequences).  Oracles, all on the Lean side:
  * `c05count` / extDec  – brute force over all orientations of the undirected edges (definition of the spec)
  * `c05model`           – the sink-elimination model, proved sound and complete (C05.pdagToDag_sound / _complete)
  * `c05valid`           – the decidable form of `ConsistentExt`, validates the DAG returned by the code
  * `c04ess`, `c04meq`   – essential graph / Markov equivalence by enumeration (round-trip clauses)
The DAG returned by the code is a *witness*: it is validated, never compared with the model's DAG."""
import copy
import re

from . import common as C
from . import c04_util as U
from .shrink import shrink_case

PID = "C05"
SETKEYS = ()


# ----------------------------------------------------------------------------- implementation side
def impl_p2d(case):
    import networkx as nx  # noqa: F401
    from pywhy_graphs.algorithms.cpdag import pdag_to_dag
    g = case["g"]
    lab = C.Labels(case.get("fam", "int"))
    try:
        G = U.build_pdag(g, lab, case.get("cls", "mixed"))
    except Exception as e:
        return {"res": "err:build:" + type(e).__name__}
    if C.warm_decide(case, 4):
        # query, edit the same object in place, query again (see common.warmup)
        with U.capture_stdout():
            C.warmup(G, lambda: pdag_to_dag(G), layers=("undirected", "directed"))
    order = [lab.inv(v) for v in G.nodes]
    before = C.snapshot(G)
    out = {"order": order}
    with U.capture_stdout() as buf:
        try:
            d = pdag_to_dag(G)
            out["res"] = "ok"
            try:
                out["D"] = sorted([lab.inv(a), lab.inv(b)] for a, b in d.edges)
                out["RN"] = sorted(lab.inv(v) for v in d.nodes)
                import networkx as _nx
                out["type"] = "DiGraph" if isinstance(d, _nx.DiGraph) and not d.is_multigraph() else type(d).__name__
            except Exception as e:  # foreign nodes in the result
                out["res"] = "bad-result:" + type(e).__name__
        except ValueError as e:
            out["res"] = "err:ValueError"
            out["msg_ok"] = "No consistent extension found" in str(e)
        except Exception as e:
            out["res"] = "err:" + type(e).__name__
    out["printed"] = bool(buf.getvalue())
    out["mutated"] = C.snapshot(G) != before
    return out


def parse_graph(s):
    m = re.match(r"N=(\S*) D=(\S*) B=(\S*) U=(\S*) C=(\S*)$", s)
    nat = lambda t: [int(x) for x in t.split(",") if x]
    prs = lambda t: [[int(x) for x in p.split("-")] for p in t.split(",") if p]
    return {"N": nat(m.group(1)), "D": prs(m.group(2)), "U": prs(m.group(4))}


def impl_rt(case):
    """round trips.  case["ess"] = essential graph of the DAG computed by the Lean decider"""
    from pywhy_graphs.algorithms.cpdag import dag_to_cpdag, pdag_to_cpdag, pdag_to_dag
    g = case["g"]
    lab = C.Labels(case.get("fam", "int"))
    out = {}
    with U.capture_stdout():
        # (a) pdag_to_cpdag maps the CPDAG of a DAG to itself
        try:
            ess = case["ess"]
            pg = {"n": g["n"], "N": C.g_nodes(g), "D": ess["D"], "U": ess["U"]}
            P = U.build_pdag(pg, lab, case.get("cls", "cpdag"))
            if C.warm_decide({"g": g, "k": "stale"}, 3):
                # a CPDAG whose edges still carry what an earlier conversion left on them ('order' / 'label'
                # attributes, as on a graph assembled from an already converted DAG) is the same CPDAG
                i = 0
                for et, gr in P.get_graphs().items():
                    for a, b in gr.edges:
                        gr[a][b]["order"] = (5 * i + 2) % (gr.number_of_edges() + 2)
                        gr[a][b]["label"] = ("compelled", "reversible", "unknown")[i % 3]
                        i += 1
            before = C.snapshot(P)
            c2 = pdag_to_cpdag(P)
            out["c2"] = U.mixed_canon(c2, lab)
            out["mutated"] = C.snapshot(P) != before
            d3 = pdag_to_dag(P)
            out["D3"] = sorted([lab.inv(a), lab.inv(b)] for a, b in d3.edges)
            out["RN3"] = sorted(lab.inv(v) for v in d3.nodes)
        except Exception as e:
            out["c2"] = "err:" + type(e).__name__
        # (b) dag_to_cpdag followed by pdag_to_dag is Markov equivalent to the original
        try:
            Dg = U.build_digraph(g, lab)
            c1 = dag_to_cpdag(Dg)
            out["c1"] = U.mixed_canon(c1, lab)
            d2 = pdag_to_dag(c1)
            out["D2"] = sorted([lab.inv(a), lab.inv(b)] for a, b in d2.edges)
            out["RN2"] = sorted(lab.inv(v) for v in d2.nodes)
            out["rt"] = "ok"
        except Exception as e:
            out["rt"] = "err:" + type(e).__name__
    return out


def impl(case):
    return impl_rt(case) if case.get("kind") == "rt" else impl_p2d(case)


# ----------------------------------------------------------------------------- Lean side
def plain(g):
    return {"n": g["n"], "D": g["D"], "U": g.get("U", [])}


def lines_p2d(case, got):
    g = case["g"]
    ls = [U.pdag_line("c05count", plain(g)),
          U.pdag_line("c05model", {"N": got.get("order", C.g_nodes(g)), "D": g["D"], "U": g["U"]})]
    if got.get("res") == "ok":
        ls.append(U.pdag_line("c05valid", plain(g), "R=%s RN=%s" % (C.fmt_pairs(got["D"]), C.fmt_set(got["RN"]))))
    return ls


def ess_canon(case):
    e = case["ess"]
    return C.canon_graph(C.g_nodes(case["g"]), D=e["D"], U=e["U"])


def lines_rt(case, got):
    g = case["g"]
    ls = []
    for dk, nk in (("D2", "RN2"), ("D3", "RN3")):
        if dk in got:
            ls.append("c04meq n=%d D=%s R=%s RN=%s" % (g["n"], C.fmt_pairs(g["D"]), C.fmt_pairs(got[dk]), C.fmt_set(got[nk])))
        else:
            ls.append("c04meq n=0 D= R= RN=")  # placeholder keeps the line count fixed
    return ls


def judge_p2d(case, got, ans):
    """ans = [count, model, valid?]; returns None or (kind, detail)"""
    cnt, model = ans[0], ans[1]
    ext = cnt != "0"
    res = got["res"]
    if (model.startswith("ok")) != ext:
        return "oracle", "Lean model %s but extDec count %s (theorem C05.pdagToDag_complete/_sound contradicted?)" % (model, cnt)
    if res == "ok":
        if ans[2] != "T":
            return ("unsound", "returned graph %s on nodes %s is not a consistent extension (extension exists: %s)"
                    % (C.fmt_pairs(got["D"]), got["RN"], ext))
        if got.get("type") != "DiGraph":
            return "type", "returned a %s, not a networkx DiGraph" % got.get("type")
    elif res == "err:ValueError":
        if ext:
            return "incomplete", "raises ValueError although %s consistent extension(s) exist; model: %s" % (cnt, model)
    else:
        return "exception", "unexpected outcome %s (property: returns a DAG or raises ValueError)" % res
    if got.get("mutated"):
        return "mutation", "pdag_to_dag modified its argument"
    return None


def judge_rt(case, got, ans):
    if got.get("c2") != ess_canon(case):
        return "pdag_to_cpdag", "pdag_to_cpdag(CPDAG of D) = %s but the CPDAG (Lean essentialDec) is %s" % (got.get("c2"), ess_canon(case))
    if got.get("mutated"):
        return "mutation", "pdag_to_cpdag modified its argument"
    if ans[1] != "T":
        return "roundtrip-ess", "pdag_to_dag(CPDAG of D) = %s is not Markov equivalent to D" % (got.get("D3"),)
    if got.get("rt") != "ok":
        return "roundtrip", "pdag_to_dag(dag_to_cpdag(D)) failed: %s" % got.get("rt")
    if ans[0] != "T":
        return "roundtrip", "pdag_to_dag(dag_to_cpdag(D)) = %s on nodes %s is not Markov equivalent to D (dag_to_cpdag(D) = %s)" % (
            got.get("D2"), got.get("RN2"), got.get("c1"))
    return None


def evaluate(case, ask_many):
    """full evaluation of one case through a function answering lists of Lean request lines"""
    if case.get("kind") == "rt":
        if "ess" not in case:
            case = dict(case)
            case["ess"] = parse_graph(ask_many(["c04ess n=%d D=%s" % (case["g"]["n"], C.fmt_pairs(case["g"]["D"]))])[0])
        got = impl_rt(case)
        return case, got, judge_rt(case, got, ask_many(lines_rt(case, got)))
    got = impl_p2d(case)
    if got["res"].startswith("err:build"):
        return case, got, None
    return case, got, judge_p2d(case, got, ask_many(lines_p2d(case, got)))


def fails_with(drv):
    def f(c):
        c = copy.deepcopy(c)
        c.pop("ess", None)
        if c.get("kind") == "rt" and not C.is_acyclic(c["g"]["n"], c["g"]["D"]):
            return False
        return evaluate(c, lambda ls: [drv.ask(l) for l in ls])[2] is not None
    return f


# ----------------------------------------------------------------------------- generators
def aimed_shape(rng, n):
    """sink x with parents p1,p2 (non-adjacent or not) and an undirected neighbour u adjacent to the parents,
    plus random other edges: the shape on which a too-strong eligibility test raises"""
    nodes = list(range(n))
    rng.shuffle(nodes)
    x, p1, p2, u = nodes[:4]
    g = C.g_new(n)
    g["D"] += [[p1, x], [p2, x]]
    g["U"].append([u, x])
    for p in (p1, p2):
        r = rng.random()
        if r < 0.5:
            g["D"].append([u, p])
        elif r < 0.8:
            g["U"].append([u, p])
        elif r < 0.9:
            g["D"].append([p, u])
    if rng.random() < 0.3:
        g["D"].append([p1, p2])
    used = {frozenset(e) for k in "DU" for e in g[k]}
    pos = {v: i for i, v in enumerate(nodes)}
    for a in range(n):
        for b in range(a + 1, n):
            if frozenset((a, b)) in used or rng.random() > 0.25:
                continue
            if x in (a, b) and rng.random() < 0.7:
                continue
            if rng.random() < 0.5:
                g["U"].append([a, b])
            else:   # keep the directed part acyclic: follow a random order with x last
                s, t = (a, b) if pos[a] > pos[b] else (b, a)
                g["D"].append([s, t])
    if not C.is_acyclic(n, g["D"]):
        g["D"] = [e for e in g["D"] if pos[e[0]] > pos[e[1]] or e[1] == x]
        if not C.is_acyclic(n, g["D"]):
            return None
    return g


def from_dag(rng, n):
    """random DAG with a random subset of its edges made undirected (extendable or not)"""
    g = U.rand_dag(rng, n, rng.choice((0.3, 0.5, 0.7)))
    p = rng.choice((0.2, 0.5, 0.8))
    h = C.g_new(n)
    for e in g["D"]:
        (h["U"] if rng.random() < p else h["D"]).append(e)
    return h


def gen_cases(ctx):
    tier, rng = ctx["tier"], ctx["rng"]
    fams = C.Labels.FAMILIES
    k = 0
    top = 4
    for n in range(1, top + 1):
        for g in U.all_pdags(n):
            reps = 1 if (n == 4 and tier == "quick") else 2
            for r in range(reps):
                k += 1
                h = g if r == 0 else C.shuffled_graph(rng, g)
                yield {"kind": "p2d", "g": h, "src": "exh%d" % n, "cls": "cpdag" if k % 3 == 0 else "mixed",
                       "fam": fams[k % len(fams)] if r else "int"}
    if tier == "thorough":
        # a seed-dependent eighth of all 5-node PDAGs (4^10 pair-state combinations)
        for i, g in enumerate(C.enum_graphs(5, U.PDAG_STATES)):
            if i % 8 == ctx["seed"] % 8 and C.is_acyclic(5, g["D"]):
                k += 1
                yield {"kind": "p2d", "g": g, "src": "exh5(1/8)", "cls": "cpdag" if k % 3 == 0 else "mixed",
                       "fam": fams[k % len(fams)]}
    N = 6000 if tier == "quick" else 120000
    for i in range(N):
        n = rng.choice((4, 5, 5, 6, 6, 7))
        r = rng.random()
        if r < 0.35:
            g = aimed_shape(rng, n)
            src = "aimed"
            if g is None:
                continue
        elif r < 0.7:
            g, src = from_dag(rng, n), "dag-undirected"
        else:
            g, src = C.rand_dag_order_graph(rng, n, [("D>",), ("U",), ("U",)], density=rng.choice((0.3, 0.5, 0.7))), "random"
        if len(g["U"]) > 11:
            continue
        yield {"kind": "p2d", "g": C.shuffled_graph(rng, g), "src": src, "cls": "cpdag" if i % 3 == 0 else "mixed",
               "fam": fams[i % len(fams)]}
    # round trips
    for n in range(1, 5):
        for g in U.all_dags(n):
            k += 1
            yield {"kind": "rt", "g": g if k % 2 else C.shuffled_graph(rng, g), "src": "rt-exh%d" % n,
                   "fam": fams[k % len(fams)]}
    if tier == "thorough":
        for g in U.all_dags(5):
            k += 1
            if k % 3 == 0:
                yield {"kind": "rt", "g": g, "src": "rt-exh5(1/3)", "fam": fams[k % len(fams)]}
    for i in range(1500 if tier == "quick" else 20000):
        n = rng.choice((5, 6, 6, 7))
        g = U.rand_dag(rng, n, rng.choice((0.3, 0.5)))
        if len(g["D"]) > 11:
            continue
        yield {"kind": "rt", "g": C.shuffled_graph(rng, g), "src": "rt-random", "fam": fams[i % len(fams)]}


# ----------------------------------------------------------------------------- run
def _eval_impl(case):
    return impl(case)


def run(ctx):
    ev, out = ctx["ev"], ctx["out"]
    ev.rule = ("pdag_to_dag: every PDAG on <=4 nodes over pair states {none,->,<-,--} with acyclic directed part "
               "(quick: one insertion order at n=4, else two; thorough: also a seed-dependent eighth of all 5-node PDAGs), random PDAGs on 4..7 nodes of three kinds: "
               "(aimed) sink with two parents and an undirected neighbour adjacent to them plus noise, "
               "(dag-undirected) random DAG with a random subset of edges made undirected, (random) DAG-ordered "
               "random mix; MixedEdgeGraph and CPDAG classes, five label families, shuffled insertion order. "
               "Round trips: every DAG on <=4 nodes (thorough: a third of the 5-node DAGs) and random DAGs on 5..7 "
               "nodes. non-trivial (pdag_to_dag) = at least one undirected edge and the number of consistent "
               "extensions among the 2^|U| orientations (Lean c05count) is neither 0 nor 2^|U|, or it is 0 "
               "although both layers are non-empty; non-trivial (round trip) = the CPDAG has both a directed "
               "and an undirected edge.")
    ev.assumptions = ["inputs have an acyclic directed layer, no self loops and at most one edge per pair (the property's quantifier)",
                      "the returned DAG is validated against the Lean decidable ConsistentExt, not compared with the model's DAG",
                      "label->index bijection and canonicalisation in harness/common.py, harness/c04_util.py"]
    corpus = C.load_corpus(PID)
    cases = corpus + list(gen_cases(ctx))
    # phase 0: essential graphs for the round-trip stream
    rts = [c for c in cases if c.get("kind") == "rt"]
    for c, s in zip(rts, C.lean_batch(["c04ess n=%d D=%s" % (c["g"]["n"], C.fmt_pairs(c["g"]["D"])) for c in rts])):
        c["ess"] = parse_graph(s)
    gots = C.pmap(_eval_impl, cases, chunksize=128)
    lines, spans = [], []
    for c, got in zip(cases, gots):
        ls = lines_rt(c, got) if c.get("kind") == "rt" else ([] if got["res"].startswith("err:build") else lines_p2d(c, got))
        spans.append((len(lines), len(ls)))
        lines += ls
    answers = C.lean_batch(lines)
    bad = []
    for c, got, (s, k) in zip(cases, gots, spans):
        ans = answers[s:s + k]
        if c.get("kind") == "rt":
            r = judge_rt(c, got, ans)
            e = c["ess"]
            ev.case({k2: v for k2, v in c.items() if k2 != "ess"}, nontrivial=bool(e["D"] and e["U"]), sample_every=4000)
            ev.count("src:" + c["src"])
        else:
            if not ans:
                ev.count("build-rejected:" + got["res"])
                continue
            r = judge_p2d(c, got, ans)
            g = c["g"]
            cnt = int(ans[0]) if ans[0].isdigit() else -1
            nt = (g["U"] and 0 < cnt < 2 ** len(g["U"])) or (cnt == 0 and g["U"] and g["D"])
            ev.case(c, nontrivial=bool(nt), sample_every=4000)
            ev.count("src:" + c.get("src", "corpus"))
            ev.count("impl:" + got["res"])
            ev.count("extension-exists:" + ("yes" if cnt > 0 else "no"))
            if got["res"] == "ok" and ans[1].startswith("ok"):
                ev.count("witness-equals-model:" + ("yes" if ans[1] == "ok D=" + C.canon_dir(got["D"]) else "no"))
            if got.get("printed"):
                ev.count("printed-to-stdout")
        if r:
            bad.append((c, r))
    ev.extra["exhaustive_part"] = "all PDAGs on <=4 nodes; all DAGs on <=4 nodes for the round trips"
    if bad:
        drv = C.Driver()
        try:
            case, (kind, detail) = bad[0]
            case = {k2: v for k2, v in case.items() if k2 != "ess"}
            small = shrink_case(case, fails_with(drv), setkeys=SETKEYS, optional_sets=())
            sc, got, r = evaluate(small, lambda ls: [drv.ask(l) for l in ls])
            out.violation(small, {"kind": r[0] if r else kind, "detail": r[1] if r else detail, "impl": got,
                                  "original_case": case, "original_detail": detail,
                                  "disagreements_total": len(bad),
                                  "kinds": sorted(set(b[1][0] for b in bad))})
        finally:
            drv.close()


def replay(ctx, payload):
    case = payload["case"]
    drv = C.Driver()
    c, got, r = evaluate(case, lambda ls: [drv.ask(l) for l in ls])
    drv.close()
    print("implementation:", got)
    print("verdict:", r)
    print("REPRODUCED" if r else "NOT-REPRODUCED")
    return 1 if r else 0


# ----------------------------------------------------------------------------- C15 adapter
def c15_cases(rng, k):
    cases = []
    while len(cases) < k:
        n = rng.choice((4, 5, 5, 6))
        r = rng.random()
        g = aimed_shape(rng, n) if r < 0.4 else (from_dag(rng, n) if r < 0.8 else
                                                   C.rand_dag_order_graph(rng, n, [("D>",), ("U",)], density=0.5))
        if g is None or len(g["U"]) > 9:
            continue
        cases.append({"kind": "p2d", "g": g})
    return cases


_drv = None


def _driver():
    global _drv
    if _drv is None:
        _drv = C.Driver()
    return _drv


def c15_eval(case, fam, order_seed):
    import random
    c = {"kind": "p2d", "g": C.shuffled_graph(random.Random(order_seed), case["g"]), "fam": fam,
         "cls": "cpdag" if order_seed % 2 else "mixed"}
    got = impl_p2d(c)
    if got["res"] == "ok":
        v = _driver().ask(U.pdag_line("c05valid", plain(case["g"]),
                                      "R=%s RN=%s" % (C.fmt_pairs(got["D"]), C.fmt_set(got["RN"]))))
        s = "found:valid" if v == "T" else "found:INVALID:not a consistent extension"
    else:
        s = got["res"]
    if got.get("mutated"):
        s += ":MUTATED"
    return s


def c15_expected(cases):
    ans = C.lean_batch([U.pdag_line("c05count", plain(c["g"])) for c in cases])
    return ["found:valid" if a != "0" else "err:ValueError" for a in ans]
