import Pw.C03.Bits
import Pw.C03.PairMap
/-! C03 — the property, stated without reference to the guards.

"a PAG never has, on one node pair, a bidirected edge together with a directed or circle mark,
 directed edges in both directions, or an arrowhead and a circle at the same endpoint, and a CPDAG
 never has a directed edge together with an undirected or an opposite directed edge" -/
namespace C03

namespace PBits
/-- endpoint marks claimed by the layers (pair read relative to (u,v)) -/
def arrowAtV (s : PBits) : Bool := s.directed_uv || s.bi
def arrowAtU (s : PBits) : Bool := s.directed_vu || s.bi
def circleAtV (s : PBits) : Bool := s.circle_uv
def circleAtU (s : PBits) : Bool := s.circle_vu
end PBits

/-- no contradictory marks on a PAG pair (the property's list, clause by clause) -/
def GoodP (s : PBits) : Bool :=
  !(s.bi && (s.directed_uv || s.directed_vu || s.circle_uv || s.circle_vu)) &&   -- <-> with -> / o
  !(s.directed_uv && s.directed_vu) &&                                             -- -> and <-
  !(s.arrowAtV && s.circleAtV) && !(s.arrowAtU && s.circleAtU)                     -- > and o at one end

/-- no contradictory marks on a CPDAG pair -/
def GoodC (s : CBits) : Bool :=
  !(s.directed_uv && s.un) && !(s.directed_vu && s.un) &&                          -- -> with --
  !(s.directed_uv && s.directed_vu)                                                -- -> with <-

instance : PairState PBits := ⟨PBits.swap, PBits.swap_swap, PBits.empty, rfl⟩
instance : PairState CBits := ⟨CBits.swap, CBits.swap_swap, CBits.empty, rfl⟩

/-- a graph (pair ↦ marks) without contradictory marks -/
def InvP (g : PairMap PBits) : Prop := PairMap.All (fun s => GoodP s = true) g
def InvC (g : PairMap CBits) : Prop := PairMap.All (fun s => GoodC s = true) g

/-- what `orient_uncertain_edge(u, v)` may change on a PAG pair: the circle at v becomes an
    arrowhead; the marks at u and the undirected layer stay as they are -/
def OrientOnlyP (s s' : PBits) : Prop :=
  s.circleAtV = true ∧ s.arrowAtV = false ∧ s'.circleAtV = false ∧ s'.arrowAtV = true ∧
  s'.arrowAtU = s.arrowAtU ∧ s'.circleAtU = s.circleAtU ∧ s'.un = s.un

/-- on a CPDAG pair: the undirected edge becomes u -> v, nothing else -/
def OrientOnlyC (s s' : CBits) : Prop :=
  s.un = true ∧ s'.un = false ∧ s'.directed_uv = true ∧ s'.directed_vu = s.directed_vu

theorem GoodP_swap (s : PBits) : GoodP s.swap = GoodP s := by
  rcases s with ⟨a, b, c, d, e, f⟩
  revert a b c d e f; decide

theorem GoodC_swap (s : CBits) : GoodC s.swap = GoodC s := by
  rcases s with ⟨a, b, c⟩
  revert a b c; decide

end C03
