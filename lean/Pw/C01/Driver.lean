import Pw.Core.Proto
import Pw.C01.Guard
open Proto

namespace C01
/-- `msep n=.. D= B= U= X= Y= Z=` → `T` | `F` | `err:cyclic` -/
def handle : Handler := fun a =>
  match MG.mSeparatedE a.graph (a.nats "X") (a.nats "Y") (a.nats "Z") with
  | .ok b => fmtBool b
  | .error e => "err:" ++ e
def handlers : List (String × Handler) := [("msep", handle)]
end C01
