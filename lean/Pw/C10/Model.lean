import Pw.Core.Graph

/-! # C10 model: `bidirected_to_unobserved_confounder`
(pywhy_graphs/networkx/algorithms/causal/convert.py, after the `fix:` commit that skips generated
names which already are nodes of the graph)

```
G_copy = nx.DiGraph()
G_copy.add_nodes_from((n, deepcopy(d)) for n, d in G.nodes.items())      -- foldl addNode
G_copy.add_edges_from(G.get_graphs(directed).edges)                       -- foldl addEdge
idx = 0
for latent_edge in G.get_graphs(bidirected).edges:                        -- loop
    while f"U{idx}" in G_copy: idx += 1                                   -- skip
    G_copy.add_node(f"U{idx}", label=uc_label, observed="no")             -- addNode … ucAttr
    G_copy.add_edge(f"U{idx}", latent_edge[0]); G_copy.add_edge(f"U{idx}", latent_edge[1])
```

The model is generic in the label type `α` and in the name supply `fresh : Nat → α`; the code is the
instance `α = String`, `fresh = uname` (`f"U{idx}"`).  The instance `α = Nat`, `fresh = id` (where the
user labels `0..n-1` *do* collide with the generated names) is what the driver uses for separation
queries.  Attribute dictionaries are atomic tokens. -/
namespace C10

abbrev Attr := Nat
/-- `{label: "Unobserved Confounders", observed: "no"}` -/
def ucAttr : Attr := 0
/-- `{}` (what `add_edge` gives to a node it has to create) -/
def emptyAttr : Attr := 1

/-- input: nodes with attributes, directed layer, bidirected layer (in iteration order) -/
structure LG (α : Type) where
  nodes : List (α × Attr)
  dir : List (α × α)
  bi : List (α × α)
deriving Repr

/-- output: a networkx `DiGraph` (node dict in insertion order, edge set) -/
structure DG (α : Type) where
  nodes : List (α × Attr) := []
  edges : List (α × α) := []
deriving Repr

variable {α : Type} [DecidableEq α]

def LG.names (G : LG α) : List α := G.nodes.map (·.1)
def DG.names (R : DG α) : List α := R.nodes.map (·.1)

/-- `DiGraph.add_node(u, **attr)`: new key at the end of the dict, or update of the attributes -/
def DG.addNode (R : DG α) (u : α) (a : Attr) : DG α :=
  if u ∈ R.names then { R with nodes := R.nodes.map fun p => if p.1 = u then (u, a) else p }
  else { R with nodes := R.nodes ++ [(u, a)] }

/-- node creation inside `add_edge` -/
def DG.ensureNode (R : DG α) (v : α) : DG α :=
  if v ∈ R.names then R else { R with nodes := R.nodes ++ [(v, emptyAttr)] }

/-- `DiGraph.add_edge(u, v)`: creates missing endpoints, edge set semantics -/
def DG.addEdge (R : DG α) (u v : α) : DG α :=
  let R1 := (R.ensureNode u).ensureNode v
  if (u, v) ∈ R1.edges then R1 else { R1 with edges := R1.edges ++ [(u, v)] }

/-- `while fresh idx in G_copy: idx += 1`, with fuel (the loop is left after at most
    `|present|` increments, see `skip_fresh`) -/
def skip (fresh : Nat → α) (present : List α) : Nat → Nat → Nat
  | 0, i => i
  | f + 1, i => if fresh i ∈ present then skip fresh present f (i + 1) else i

/-- the loop over the bidirected edges; state = (`idx`, `G_copy`) -/
def loop (fresh : Nat → α) : List (α × α) → Nat → DG α → DG α
  | [], _, R => R
  | e :: es, idx, R =>
    let idx' := skip fresh R.names (R.names.length + 1) idx
    let u := fresh idx'
    loop fresh es idx' (((R.addNode u ucAttr).addEdge u e.1).addEdge u e.2)

def base (G : LG α) : DG α :=
  G.dir.foldl (fun R e => R.addEdge e.1 e.2) (G.nodes.foldl (fun R p => R.addNode p.1 p.2) {})

def conv (fresh : Nat → α) (G : LG α) : DG α := loop fresh G.bi 0 (base G)

/-- `f"U{idx}"` -/
def uname (k : Nat) : String := "U" ++ toString k

/-- the model of the code -/
def convS (G : LG String) : DG String := conv uname G

/-! ## Encoding into the `Nat`-labelled mixed graphs of the C01 machinery -/

def LG.encode (enc : α → Nat) (G : LG α) : MG :=
  { nodes := G.names.map enc, dir := G.dir.map fun e => (enc e.1, enc e.2),
    bi := G.bi.map fun e => (enc e.1, enc e.2) }

def DG.encode (enc : α → Nat) (R : DG α) : MG :=
  { nodes := R.names.map enc, dir := R.edges.map fun e => (enc e.1, enc e.2) }

def LG.ofMG (G : MG) : LG Nat := { nodes := G.nodes.map (·, emptyAttr), dir := G.dir, bi := G.bi }

/-- the conversion on `Nat`-labelled graphs: generated names are `0, 1, 2, …` skipping nodes of `G` -/
def convMG (G : MG) : MG := (conv id (LG.ofMG G)).encode id

end C10
