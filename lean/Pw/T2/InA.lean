import Pw.T2.Basic
open Closure

/-! # T2, part 2: every node of an open walk between two anterior nodes is anterior -/
namespace MG

theorem revHops_snoc : ∀ (s : List Hop) (a : Nat) (hop : Hop),
    revHops a (s ++ [hop]) = ⟨hop.mn, hop.mp, endNode a s⟩ :: revHops a s
  | [], a, hop => by simp [revHops, endNode]
  | h :: t, a, hop => by
    simp only [List.cons_append, revHops, endNode, revHops_snoc t h.nx hop, List.cons_append]

/-- following tails forward: if the walk leaves `a` through a tail, `a` is anterior to the far end or to
    a collider on the way -/
theorem inAnt_of_tail_exit {G : MG} (hb : NoUndirAtHead G) {Z T : List Nat} {C : Nat → Prop}
    (hC : ∀ v, C v → InAnt G T v) :
    ∀ (hs : List Hop) (a : Nat) (e : Option Mark), (∀ h ∈ hs.head?, h.mp = .tail) → hs ≠ [] →
      ValidW G a hs → OpenP C Z e a hs → InAnt G T (endNode a hs) → InAnt G T a
  | [], _, _, _, hne, _, _, _ => absurd rfl hne
  | h :: t, a, e, hmp, _, hv, ho, hend => by
    have hmp' : h.mp = .tail := hmp h (by simp)
    obtain ⟨hv1, hv2⟩ := hv
    obtain ⟨_, ho2⟩ := ho
    rw [hmp'] at hv1
    cases t with
    | nil => exact InAnt.step hv1 hend
    | cons h2 t2 =>
      have hc := ho2.1
      cases hm2 : h2.mp with
      | tail =>
        have := inAnt_of_tail_exit hb hC (h2 :: t2) h.nx (some h.mn) (by intro x hx; simp at hx; rw [← hx]; exact hm2)
          (by simp) hv2 ho2 hend
        exact InAnt.step hv1 this
      | head =>
        cases hmn : h.mn with
        | head =>
          simp only [condPO, condP, hmn, hm2, and_self, if_true] at hc
          exact InAnt.step hv1 (hC _ hc)
        | tail =>
          exfalso
          rw [hmn] at hv1
          have h2e := hv2.1
          rw [hm2] at h2e
          exact hb h.nx h2.nx h2.mn h2e.symm a hv1.symm

theorem all_inAnt {G : MG} (hb : NoUndirAtHead G) {Z T : List Nat} {C : Nat → Prop}
    (hC : ∀ v, C v → InAnt G T v) (hs : List Hop) (a : Nat)
    (hv : ValidW G a hs) (ho : OpenP C Z none a hs) (ha : InAnt G T a)
    (hend : InAnt G T (endNode a hs)) : ∀ v ∈ nodesOf a hs, InAnt G T v := by
  intro v hvmem
  simp only [nodesOf, List.mem_cons, List.mem_map] at hvmem
  rcases hvmem with rfl | ⟨hop, hhop, rfl⟩
  · exact ha
  obtain ⟨s, t2, rfl⟩ := List.append_of_mem hhop
  have hsplit : s ++ hop :: t2 = (s ++ [hop]) ++ t2 := by simp
  rw [hsplit] at hv ho hend
  rw [validW_append] at hv
  rw [openP_append, exitMark_snoc] at ho
  rw [endNode_append] at hend
  rw [endNode_snoc] at hv ho hend
  obtain ⟨hv1, hv2⟩ := hv
  obtain ⟨ho1, ho2⟩ := ho
  cases t2 with
  | nil => exact hend
  | cons h2 t3 =>
    have hc := ho2.1
    cases hm2 : h2.mp with
    | tail =>
      exact inAnt_of_tail_exit hb hC (h2 :: t3) hop.nx (some hop.mn)
        (by intro x hx; simp at hx; rw [← hx]; exact hm2) (by simp) hv2 ho2 hend
    | head =>
      cases hmn : hop.mn with
      | head =>
        simp only [condPO, condP, hmn, hm2, and_self, if_true] at hc
        exact hC _ hc
      | tail =>
        -- walk back along the reversed prefix, which leaves `hop.nx` through a tail
        have hR := validW_revHops (s ++ [hop]) a hv1
        have hoR := (openP_revHops (C := C) (Z := Z) (s ++ [hop]) a none none).mp
          ⟨ho1, by simp [condPO, exitMark_snoc]⟩
        rw [endNode_snoc] at hR hoR
        have hendR : endNode hop.nx (revHops a (s ++ [hop])) = a := by
          have := endNode_revHops (s ++ [hop]) a
          rwa [endNode_snoc] at this
        refine inAnt_of_tail_exit hb hC (revHops a (s ++ [hop])) hop.nx none ?_ ?_ hR hoR.1 (by rw [hendR]; exact ha)
        · intro x hx
          rw [revHops_snoc] at hx
          simp at hx
          rw [← hx]; exact hmn
        · rw [revHops_snoc]; simp

end MG
