#!/bin/bash
# usage: tools/stage_round.sh r4 [ids like c01 c02 ...]  — copy /tmp/mut/out/<id><round>_<i> to seeded/<ID>-<round>-<i>
# (patch.diff, demo.py, meta.json only) and check quickly that the patch applies to /repo HEAD and the demo flips.
round=$1; shift
cd /verif
for id in "$@"; do
  ID=$(echo $id | tr c C)
  for i in 1 2 3; do
    src=/tmp/mut/out/${id}${round}_$i; dst=seeded/$ID-$round-$i
    [ -f $src/patch.diff ] || { echo "$dst: missing"; continue; }
    mkdir -p $dst; cp $src/patch.diff $src/demo.py $src/meta.json $dst/ 2>/dev/null
    wt=/tmp/stage-$ID-$round-$i
    git -C /repo worktree add -q --detach $wt HEAD || continue
    cp -r /repo/pywhy_graphs.egg-info $wt/ 2>/dev/null
    (cd $wt; PYTHONPATH=$wt timeout 600 /venv/bin/python /verif/$dst/demo.py >/dev/null 2>&1; b=$?
     git apply /verif/$dst/patch.diff 2>/dev/null; a1=$?
     PYTHONPATH=$wt timeout 600 /venv/bin/python /verif/$dst/demo.py >/dev/null 2>&1; a=$?
     echo "$dst: applies=$a1 demo before=$b after=$a")
    git -C /repo worktree remove --force $wt
  done
done
