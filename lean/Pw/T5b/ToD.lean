import Pw.T5b.Basic
open Closure MG

/-! # T5b, part 2: an m-connection in the MAG `M` yields an m-connection in `D` given `Z ∪ S`

A semi-open walk of `M` inside the anterior set of `{x,y} ∪ Z` (T2 applied to `M`) is unfolded edge by
edge into inducing paths of `D`; an arrowhead of `M` at `c` forces every inducing path to end with an
edge into `c`, so colliders of the M-walk stay colliders of the D-walk. -/
namespace T5b
open C06

/-- standing hypotheses on the DAG / ADMG `D` and its MAG `M` -/
structure Setup (D : MG) (L S : List Nat) (M : MG) : Prop where
  hs : MagStructure D L S M
  wf : D.WF
  un : D.un = []
  acy : Acyclic D
  sl : NoSelfLoop D
  hSn : ∀ s ∈ S, s ∈ D.nodes
  hLS : ∀ v, v ∈ L → v ∉ S

variable {D M : MG} {L S : List Nat}

theorem Ant.trans' {G : MG} {a b c : Nat} (h1 : Ant G a b) (h2 : Ant G b c) : Ant G a c := by
  induction h1 with
  | refl => exact h2
  | step e _ ih => exact Ant.step e (ih h2)

/-- anterior in `M` means ancestor in `D` of the target or of `S` -/
theorem anc_of_antM (hs : MagStructure D L S M) {a c : Nat} (h : Ant M a c) :
    Anc D a c ∨ ∃ s ∈ S, Anc D a s := by
  induction h with
  | refl => exact Or.inl (Anc.refl _)
  | @step a b c mb he _ ih =>
    have i := edgeInfo_of_hasEdge hs he
    rcases tailAt_cases (i.ma_tail.mp rfl) with h | h
    · obtain ⟨t, ht, w, hw, hwt⟩ := h
      exact Or.inr ⟨t, ht, Anc.step hw hwt⟩
    · obtain ⟨t, ht, w, hw, hwt⟩ := h
      rw [List.mem_singleton] at ht
      rw [ht] at hwt
      have hab : Anc D a b := Anc.step hw hwt
      rcases ih with ih | ⟨s, hs', ih⟩
      · exact Or.inl (hab.trans ih)
      · exact Or.inr ⟨s, hs', hab.trans ih⟩

theorem exists_snoc : ∀ (l : List Hop), l ≠ [] → ∃ s h, l = s ++ [h]
  | [], h => absurd rfl h
  | [x], _ => ⟨[], x, rfl⟩
  | x :: y :: t, _ => by
    obtain ⟨s, h, e⟩ := exists_snoc (y :: t) (by simp)
    exact ⟨x :: s, h, by rw [e]; rfl⟩

/-- if `c` is not a strict ancestor of `S ∪ {a}`, every D-edge from `c` to a node that is an ancestor
    of `a`, `c` or `S` has an arrowhead at `c` -/
theorem mark_head (su : Setup D L S M) {T : List Nat} {a c w : Nat} {mc mw : Mark}
    (hnt : ¬ TailAt D S a c) (he : HasEdge D c w mc mw) (hw : InAnt D T w)
    (hT : ∀ t ∈ T, t = c ∨ t = a ∨ t ∈ S) : mc = .head := by
  cases mc with
  | head => rfl
  | tail =>
    exfalso
    have hd : (c, w) ∈ D.dir := by
      rcases he with ⟨_, _, h⟩ | ⟨h1, _, _⟩ | ⟨h1, _, _⟩ | ⟨_, _, h⟩
      · exact h
      · cases h1
      · cases h1
      · rw [su.un] at h; rcases h with h | h <;> cases h
    obtain ⟨t, ht, hant⟩ := hw
    have hanc := T5.anc_of_ant su.un hant
    rcases hT t ht with rfl | rfl | htS
    · exact su.acy _ _ hd hanc
    · exact hnt ⟨t, by simp, w, hd, hanc⟩
    · exact hnt ⟨t, List.mem_append_left _ htS, w, hd, hanc⟩

/-- every M-edge unfolds into an inducing path of `D` whose end marks dominate the M-marks -/
theorem edge_expand (su : Setup D L S M) {Zs : List Nat} (hLZ : ∀ v, v ∈ L → v ∉ Zs) {a b : Nat}
    {ma mb : Mark} (he : HasEdge M a b ma mb) :
    ∃ π : List Hop, π ≠ [] ∧ ValidW D a π ∧ endNode a π = b ∧ OpenP Tr Zs none a π ∧
      (∀ w ∈ nodesOf a π, InAnt D (a :: b :: S) w) ∧
      (ma = .head → ∀ p ∈ π.head?, p.mp = .head) ∧ (mb = .head → exitMark none π = some .head) := by
  have i := edgeInfo_of_hasEdge su.hs he
  have hb : NoUndirAtHead D := noUndirAtHead_of_un_nil D su.un
  have hind : HasInducingPath D L S a b := by
    rcases i.ind with h | h
    · exact h
    · exact C06.hasInducingPath_symm su.wf su.un su.sl su.hSn su.hLS (Ne.symm i.hab) i.hb i.ha i.hbS i.haS h
  obtain ⟨π, hv, hend, _, hin⟩ := hind
  have hoP := T5.innerOK_openP hLZ π none a hin
  have hall := all_inAnt hb (T := a :: b :: S) (fun v hv => by
    obtain ⟨t, ht, ha⟩ := hv
    exact ⟨t, ht, Ant.of_anc ha⟩) π a hv hoP ⟨a, by simp, Ant.refl a⟩
    (by rw [hend]; exact ⟨b, by simp, Ant.refl b⟩)
  have hne : π ≠ [] := by
    rintro rfl
    exact i.hab hend
  refine ⟨π, hne, hv, hend, OpenP.mono (fun _ _ => trivial) π none a hoP, hall, ?_, ?_⟩
  · intro hma p hp
    cases π with
    | nil => cases hp
    | cons q qs =>
      simp at hp; subst hp
      have hnt : ¬ TailAt D S b a := by
        intro ht; have := i.ma_tail.mpr ht; rw [hma] at this; cases this
      refine mark_head su hnt hv.1 (hall q.nx (by simp [nodesOf])) ?_
      intro t ht
      simp only [List.mem_cons] at ht
      rcases ht with rfl | rfl | ht
      · exact Or.inl rfl
      · exact Or.inr (Or.inl rfl)
      · exact Or.inr (Or.inr ht)
  · intro hmb
    obtain ⟨s, hop, rfl⟩ := exists_snoc π hne
    rw [exitMark_snoc]
    rw [validW_append] at hv
    rw [endNode_snoc] at hend
    have hedge : HasEdge D (endNode a s) hop.nx hop.mp hop.mn := hv.2.1
    rw [hend] at hedge
    have hnt : ¬ TailAt D S a b := by
      intro ht; have := i.mb_tail.mpr ht; rw [hmb] at this; cases this
    have hmem : endNode a s ∈ nodesOf a (s ++ [hop]) := by
      rw [nodesOf_append]
      exact List.mem_append_left _ (endNode_mem_nodesOf s a)
    have := mark_head su hnt hedge.symm (hall _ hmem) (by
      intro t ht
      simp only [List.mem_cons] at ht
      rcases ht with rfl | rfl | ht
      · exact Or.inr (Or.inl rfl)
      · exact Or.inl rfl
      · exact Or.inr (Or.inr ht))
    rw [this]

/-- a semi-open M-walk inside `A` unfolds into a semi-open D-walk inside `A` (w.r.t. `Z ∪ S`) -/
theorem walk_M_to_D (su : Setup D L S M) {Z : List Nat} (hZL : ∀ v, v ∈ L → v ∉ Z) (A : Nat → Prop)
    (hA : ∀ a b w, A a → A b → InAnt D (a :: b :: S) w → A w) :
    ∀ (hs : List Hop) (a : Nat) (e : Option Mark), ValidW M a hs → OpenP Tr Z e a hs →
      (∀ w ∈ nodesOf a hs, A w) →
      ∃ ds, ValidW D a ds ∧ endNode a ds = endNode a hs ∧ (∀ w ∈ nodesOf a ds, A w) ∧
        (∀ e' : Option Mark, (e = none → e' = none) → (e = some .head → e' = some .head) →
          OpenP Tr (Z ++ S) e' a ds)
  | [], a, e, _, _, hall => ⟨[], trivial, rfl, hall, fun _ _ _ => trivial⟩
  | h :: t, a, e, hv, ho, hall => by
    obtain ⟨hv1, hv2⟩ := hv
    obtain ⟨ho1, ho2⟩ := ho
    have hLZs : ∀ v, v ∈ L → v ∉ Z ++ S := by
      intro v hvL hz
      rcases List.mem_append.mp hz with hz | hz
      · exact hZL v hvL hz
      · exact su.hLS v hvL hz
    have i := edgeInfo_of_hasEdge su.hs hv1
    have haA : A a := hall a (by simp [nodesOf])
    have hnA : A h.nx := hall h.nx (by simp [nodesOf])
    have htA : ∀ w ∈ nodesOf h.nx t, A w := by
      intro w hw
      apply hall w
      simp only [nodesOf, List.map_cons, List.mem_cons] at hw ⊢
      exact Or.inr hw
    obtain ⟨π, hne, pv, pend, po, pall, pfirst, plast⟩ := edge_expand su hLZs hv1
    obtain ⟨ds', dv, dend, dall, dopen⟩ := walk_M_to_D su hZL A hA t h.nx (some h.mn) hv2 ho2 htA
    cases π with
    | nil => exact absurd rfl hne
    | cons p ps =>
      refine ⟨(p :: ps) ++ ds', ?_, ?_, ?_, ?_⟩
      · rw [validW_append, pend]; exact ⟨pv, dv⟩
      · rw [endNode_append, pend, dend]; rfl
      · intro w hw
        rw [nodesOf_append] at hw
        rcases List.mem_append.mp hw with hw | hw
        · exact hA a h.nx w haA hnA (pall w hw)
        · exact dall w (by simp only [nodesOf, List.mem_cons]; exact Or.inr hw)
      · intro e' h1 h2
        rw [openP_append, pend]
        constructor
        · refine ⟨?_, po.2⟩
          cases e' with
          | none => trivial
          | some m' =>
            cases e with
            | none => exact absurd (h1 rfl) (by simp)
            | some m =>
              simp only [condPO, condP] at ho1 ⊢
              split
              · trivial
              · rename_i hnc
                intro hz
                rcases List.mem_append.mp hz with hz | hz
                · by_cases hcol : m = .head ∧ h.mp = .head
                  · apply hnc
                    have e1 := h2 (by rw [hcol.1])
                    have e2 := pfirst hcol.2 p (by simp)
                    simp only [Option.some.injEq] at e1
                    exact ⟨e1, e2⟩
                  · simp only [hcol, if_false] at ho1
                    exact ho1 hz
                · exact i.haS hz
        · apply dopen
          · intro hc; cases hc
          · intro hc
            simp only [Option.some.injEq] at hc
            exact plast hc

/-- **T5b, direction "M ⇒ D".** -/
theorem not_msep_D_of_not_msep_M (su : Setup D L S M) {x y : Nat} {Z : List Nat}
    (hx : x ∈ M.nodes) (hy : y ∈ M.nodes) (hZ : ∀ z ∈ Z, z ∈ M.nodes ∧ z ≠ x ∧ z ≠ y)
    (h : ¬ MSep M [x] [y] Z) : ¬ MSep D [x] [y] (Z ++ S) := by
  have hMwf := mag_wf su.hs
  have hMb := mag_noUndirAtHead su.hs su.acy
  have hMsl := mag_noSelfLoop su.hs
  have hDb : NoUndirAtHead D := noUndirAtHead_of_un_nil D su.un
  obtain ⟨hxD, hxL, hxS⟩ := (su.hs.nodes x).mp hx
  obtain ⟨hyD, hyL, hyS⟩ := (su.hs.nodes y).mp hy
  have hxZ : ∀ a ∈ [x], a ∉ Z := by
    intro a ha hz; simp at ha; subst ha; exact (hZ a hz).2.1 rfl
  have hyZ : ∀ a ∈ [y], a ∉ Z := by
    intro a ha hz; simp at ha; subst ha; exact (hZ a hz).2.2 rfl
  have hZs : ∀ z ∈ Z ++ S, z ∈ D.nodes := by
    intro z hz
    rcases List.mem_append.mp hz with hz | hz
    · exact ((su.hs.nodes z).mp (hZ z hz).1).1
    · exact su.hSn z hz
  have hxZs : ∀ a ∈ [x], a ∉ Z ++ S := by
    intro a ha hz; simp at ha; subst ha
    rcases List.mem_append.mp hz with hz | hz
    · exact (hZ a hz).2.1 rfl
    · exact hxS hz
  have hyZs : ∀ a ∈ [y], a ∉ Z ++ S := by
    intro a ha hz; simp at ha; subst ha
    rcases List.mem_append.mp hz with hz | hz
    · exact (hZ a hz).2.2 rfl
    · exact hyS hz
  rw [mSep_iff_moral_cut M hMwf hMb hMsl [x] [y] Z (fun z hz => (hZ z hz).1) hxZ hyZ] at h
  rw [mSep_iff_moral_cut D su.wf hDb su.sl [x] [y] (Z ++ S) hZs hxZs hyZs]
  intro hno
  apply h
  rintro ⟨x', hx', y', hy', hh⟩
  simp at hx' hy'; subst hx'; subst hy'
  apply hno
  obtain ⟨hs, hv, hend, ho, hall⟩ := semiOpen_of_hconn hh ⟨x', by simp, Ant.refl x'⟩
  have hconv : ∀ w, AntSet M [x'] [y'] Z w → AntSet D [x'] [y'] (Z ++ S) w := by
    rintro w ⟨t, ht, hant⟩
    rcases anc_of_antM su.hs hant with h | ⟨s, hsS, h⟩
    · refine ⟨t, ?_, Ant.of_anc h⟩
      simp only [List.mem_append] at ht ⊢
      rcases ht with ht | ht
      · exact Or.inl ht
      · exact Or.inr (Or.inl ht)
    · exact ⟨s, by simp [hsS], Ant.of_anc h⟩
  have hA : ∀ a b w, AntSet D [x'] [y'] (Z ++ S) a → AntSet D [x'] [y'] (Z ++ S) b →
      InAnt D (a :: b :: S) w → AntSet D [x'] [y'] (Z ++ S) w := by
    rintro a b w ⟨ta, hta, haa⟩ ⟨tb, htb, hab⟩ ⟨t, ht, hant⟩
    simp only [List.mem_cons] at ht
    rcases ht with rfl | rfl | ht
    · exact ⟨ta, hta, Ant.trans' hant haa⟩
    · exact ⟨tb, htb, Ant.trans' hant hab⟩
    · exact ⟨t, by simp [ht], hant⟩
  have hZL : ∀ v, v ∈ L → v ∉ Z := by
    intro v hvL hz
    exact ((su.hs.nodes v).mp (hZ v hz).1).2.1 hvL
  obtain ⟨ds, dv, dend, dall, dopen⟩ := walk_M_to_D su hZL _ hA hs x' none hv ho
    (fun w hw => hconv w (hall w hw))
  have := hconn_of_semiOpen (A := AntSet D [x'] [y'] (Z ++ S)) ds x' x' [] trivial rfl trivial
    (by intro w hw; simp [nodesOf] at hw; rw [hw]; exact ⟨x', by simp, Ant.refl x'⟩) dv
    (dopen none (fun _ => rfl) (by intro hc; cases hc)) dall
    (by rw [dend, hend]; exact hyZs y' (by simp))
  rw [dend, hend] at this
  exact ⟨x', by simp, y', by simp, this⟩

end T5b
