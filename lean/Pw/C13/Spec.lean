import Pw.C13.Model

/-!
# C13 — specification

"After any sequence of public operations the node set is exactly variables × {0,…,-max_lag}, every
edge between (x,-a) and (y,-b) is present together with all of its time-shifted copies that fit in
the window, and in directed variants no edge runs from a later to an earlier time point; mixed-edge
variants keep this for each edge type and copy() returns an equal graph of the same class and
max_lag.  An operation that raises leaves every edge set and max_lag unchanged and the graph still
satisfying the above."

Lags are natural numbers (`(x, a)` is the node `(x, -a)` of the Python API).  An undirected-type
edge is written earlier node first (the harness canonicalises the observed edges the same way).
-/
namespace C13

/-- nodes = variables × {0..max_lag}: every node lies in the window and every node's variable has all
its time points (the variables *are* the first components of the nodes, as in `variables`) -/
def Complete (nodes : List Node) (m : Nat) : Prop :=
  ∀ x a, (x, a) ∈ nodes → a ≤ m ∧ ∀ b, b ≤ m → (x, b) ∈ nodes

/-- every edge comes with all of its time-shifted copies that fit in the window `0..m` -/
def ShiftClosed (m : Nat) (E : List Edge) : Prop :=
  ∀ x a y b, ((x, a), (y, b)) ∈ E → ∀ a' b', a' ≤ m → b' ≤ m → a' + b = a + b' →
    ((x, a'), (y, b')) ∈ E

/-- no edge runs from a later to an earlier time point (lag of the to-node ≤ lag of the from-node) -/
def Forward (E : List Edge) : Prop := ∀ x a y b, ((x, a), (y, b)) ∈ E → b ≤ a

/-- edges join nodes of the graph -/
def EndsIn (nodes : List Node) (E : List Edge) : Prop := ∀ e ∈ E, e.1 ∈ nodes ∧ e.2 ∈ nodes

/-- the property for one edge type; `Forward` is demanded of the directed layers (`Kind.dir`) -/
def LayerOk (nodes : List Node) (m : Nat) (L : Layer) : Prop :=
  EndsIn nodes L.edges ∧ ShiftClosed m L.edges ∧ (L.kind = .dir → Forward L.edges)

/-- **the property C13 of a state** -/
def Stationary (s : St) : Prop :=
  Complete s.nodes s.maxLag ∧ ∀ L ∈ s.layers, LayerOk s.nodes s.maxLag L

/-- same graph: same node set, same max_lag, same edge set per edge type (lists as sets) -/
def SameLayer (L L' : Layer) : Prop := L.kind = L'.kind ∧ ∀ e, e ∈ L.edges ↔ e ∈ L'.edges
def Same (s t : St) : Prop :=
  (∀ n, n ∈ s.nodes ↔ n ∈ t.nodes) ∧ s.maxLag = t.maxLag ∧ s.layers.length = t.layers.length ∧
    ∀ (i : Nat) L L', s.layers[i]? = some L → t.layers[i]? = some L' → SameLayer L L'

/-! ## executable decider (the oracle applied to the *observed implementation state*) -/

def completeDec (nodes : List Node) (m : Nat) : Bool :=
  nodes.all fun n => decide (n.2 ≤ m) && (List.range (m + 1)).all fun b => nodes.contains (n.1, b)

def shiftClosedDec (m : Nat) (E : List Edge) : Bool :=
  E.all fun e => (List.range (m + 1)).all fun a' => (List.range (m + 1)).all fun b' =>
    !decide (a' + e.2.2 = e.1.2 + b') || E.contains ((e.1.1, a'), (e.2.1, b'))

def forwardDec (E : List Edge) : Bool := E.all fun e => decide (e.2.2 ≤ e.1.2)

def endsInDec (nodes : List Node) (E : List Edge) : Bool :=
  E.all fun e => nodes.contains e.1 && nodes.contains e.2

def layerOkDec (nodes : List Node) (m : Nat) (L : Layer) : Bool :=
  endsInDec nodes L.edges && shiftClosedDec m L.edges && (L.kind != .dir || forwardDec L.edges)

def stationaryDec (s : St) : Bool :=
  completeDec s.nodes s.maxLag && s.layers.all (layerOkDec s.nodes s.maxLag)

end C13
