#!/bin/bash
# usage: tools/pickfixes.sh <agent-name>   cherry-pick every commit of f-<name> onto /repo main, then run the baseline
n=$1
cd /repo
for c in $(git log --reverse --format=%h main..f-$n); do
  subj=$(git log -1 --format=%s $c)
  if git log --format=%s main | grep -qxF "$subj"; then echo "skip (already on main): $subj"; continue; fi
  if git cherry-pick $c >/tmp/cp.log 2>&1; then echo "picked: $subj"; else echo "CONFLICT picking $c: $subj"; git status --short | grep '^U\|^AA\|^DU\|^UD' ; exit 1; fi
done
/verif/tools/baseline.py /repo
