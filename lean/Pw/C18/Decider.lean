import Pw.C18.DiscSound

/-! # C18: the brute-force deciders decide the specification

`uncovExists G q = true ↔ ∃ p, UncovPd G q p` and `discExists G u a c = true ↔ ∃ p, DiscPath G u a c p`
on every graph whose edges join nodes of the graph.  These are the oracles the harness compares the
implementation's `found` with. -/
namespace C18

/-- edges join nodes of the graph -/
def WFG (G : MG) : Prop := ∀ a b, adj G a b = true → a ∈ G.nodes ∧ b ∈ G.nodes

theorem nodup_length_le : ∀ (l U : List Nat), l.Nodup → (∀ x ∈ l, x ∈ U) → l.length ≤ U.length
  | [], _, _, _ => by simp
  | x :: t, U, hn, hs => by
    have hx : x ∈ U := hs x (by simp)
    have hn' := List.nodup_cons.mp hn
    have ht : ∀ y ∈ t, y ∈ U.erase x := by
      intro y hy
      have : y ≠ x := fun e => hn'.1 (e ▸ hy)
      exact (List.mem_erase_of_ne this).mpr (hs y (by simp [hy]))
    have := nodup_length_le t (U.erase x) hn'.2 ht
    rw [List.length_erase_of_mem hx] at this
    have : 0 < U.length := List.length_pos_of_mem hx
    simp; omega

theorem pdEdge_adj {G : MG} {fc : Bool} {x y : Nat} (h : pdEdge G fc x y = true) : adj G x y = true := by
  unfold pdEdge at h
  cases fc with
  | false => simp at h; exact h.1.1
  | true =>
    simp only [if_true, Bool.and_eq_true, beq_iff_eq] at h
    have h2 := h.2
    unfold mark at h2
    unfold adj
    revert h2
    cases hD G x y <;> cases hB G x y <;> cases hC G x y <;> cases hD G y x <;> cases hU G x y <;>
      cases hC G y x <;> simp

theorem chainB_mono {r s : Nat → Nat → Bool} (h : ∀ a b, r a b = true → s a b = true) :
    ∀ l, chainB r l = true → chainB s l = true
  | [] => fun _ => rfl
  | [_] => fun _ => rfl
  | a :: b :: t => by
    intro hl
    simp only [chainB, Bool.and_eq_true] at hl ⊢
    exact ⟨h a b hl.1, chainB_mono h (b :: t) hl.2⟩

theorem chainB_tail_mem {G : MG} (hW : WFG G) : ∀ l, chainB (adj G) l = true → ∀ y ∈ l.tail, y ∈ G.nodes
  | [] => by simp
  | [_] => by simp
  | a :: b :: t => by
    intro hl y hy
    simp only [chainB, Bool.and_eq_true] at hl
    simp only [List.tail_cons, List.mem_cons] at hy
    rcases hy with rfl | hy
    · exact (hW a y hl.1).2
    · exact chainB_tail_mem hW (b :: t) hl.2 y (by simpa using hy)

theorem chainB_tail {r : Nat → Nat → Bool} : ∀ l, chainB r l = true → chainB r l.tail = true
  | [] => fun _ => rfl
  | [_] => fun _ => rfl
  | _ :: b :: t => by intro hl; simp only [chainB, Bool.and_eq_true] at hl; exact hl.2

/-- every simple path of the skeleton from `x` that avoids `avoid` and has at most `fuel` edges is enumerated -/
theorem pathsFrom_complete (G : MG) : ∀ (fuel : Nat) (avoid : List Nat) (x : Nat) (l : List Nat),
    l.head? = some x → chainB (adj G) l = true → l.Nodup → (∀ y ∈ l.tail, y ∈ G.nodes) →
    (∀ y ∈ l, y ∉ avoid) → l.length ≤ fuel + 1 → l ∈ pathsFrom G fuel avoid x := by
  intro fuel
  induction fuel with
  | zero =>
    intro avoid x l hh _ _ _ _ hlen
    cases l with
    | nil => cases hh
    | cons a t =>
      simp at hh; subst hh
      cases t with
      | nil => simp [pathsFrom]
      | cons b t' => simp at hlen
  | succ n ih =>
    intro avoid x l hh hch hn hnodes hav hlen
    cases l with
    | nil => cases hh
    | cons a t =>
      simp at hh; subst hh
      cases t with
      | nil => simp [pathsFrom]
      | cons y t' =>
        simp only [pathsFrom, List.mem_cons, List.mem_flatMap, List.mem_filter, List.mem_map]
        right
        simp only [chainB, Bool.and_eq_true] at hch
        have hn' := List.nodup_cons.mp hn
        refine ⟨y, ⟨hnodes y (by simp), ?_⟩, y :: t', ?_, rfl⟩
        · simp only [Bool.and_eq_true, hch.1, true_and, Bool.not_eq_true', decide_eq_false_iff_not,
            List.mem_cons, not_or]
          exact ⟨fun e => hn'.1 (by simp [e]), hav y (by simp)⟩
        · apply ih (a :: avoid) y (y :: t') rfl hch.2 hn'.2
          · intro z hz; exact hnodes z (by simp at hz ⊢; exact Or.inr hz)
          · intro z hz hza
            simp only [List.mem_cons] at hza
            rcases hza with rfl | hza
            · exact hn'.1 hz
            · exact hav z (by simp at hz ⊢; exact Or.inr hz) hza
          · simp at hlen ⊢; omega

/-- all simple skeleton paths from `x` are in `pathsFrom G |V| [] x` -/
theorem pathsFrom_all {G : MG} (hW : WFG G) (x : Nat) (l : List Nat) (hh : l.head? = some x)
    (hch : chainB (adj G) l = true) (hn : l.Nodup) : l ∈ pathsFrom G G.nodes.length [] x := by
  have htail := chainB_tail_mem hW l hch
  refine pathsFrom_complete G _ [] x l hh hch hn htail (by simp) ?_
  have : l.tail.length ≤ G.nodes.length :=
    nodup_length_le l.tail G.nodes (hn.sublist (List.tail_sublist l)) htail
  cases l with
  | nil => simp
  | cons a t => simp at this ⊢; exact this

/-- **the oracle for `uncovered_pd_path` decides the specification** -/
theorem uncovExists_iff {G : MG} (hW : WFG G) (q : Query) :
    uncovExists G q = true ↔ ∃ p, UncovPd G q p := by
  unfold uncovExists
  rw [List.any_eq_true]
  constructor
  · rintro ⟨core, _, h⟩
    exact ⟨_, of_decide_eq_true h⟩
  · rintro ⟨p, hp⟩
    have hp' := hp
    obtain ⟨htake, hhead, _, _, hn, hch, _⟩ := hp'
    have hsplit : p = q.first.toList ++ p.drop q.first.toList.length := by
      conv => lhs; rw [← List.take_append_drop q.first.toList.length p]
      rw [htake]
    refine ⟨p.drop q.first.toList.length, ?_, ?_⟩
    · exact pathsFrom_all hW q.u _ hhead (chainB_mono (fun a b => pdEdge_adj) _ hch)
        (hn.sublist (List.drop_sublist _ _))
    · rw [← hsplit]; exact decide_eq_true hp

theorem chainB_reverse {r : Nat → Nat → Bool} (hr : ∀ a b, r a b = r b a) :
    ∀ l, chainB r l.reverse = chainB r l
  | [] => rfl
  | [_] => rfl
  | a :: b :: t => by
    have ih := chainB_reverse hr (b :: t)
    rw [List.reverse_cons, chainB_append_singleton, ih, List.getLast?_reverse]
    simp only [List.head?_cons, chainB]
    rw [hr b a, Bool.and_comm]

/-- **the oracle for `discriminating_path` decides the specification** -/
theorem discExists_iff {G : MG} (hW : WFG G) (u a c : Nat) :
    discExists G u a c = true ↔ ∃ p, DiscPath G u a c p := by
  unfold discExists
  rw [List.any_eq_true]
  constructor
  · rintro ⟨l, _, h⟩
    exact ⟨_, of_decide_eq_true h⟩
  · rintro ⟨p, hp⟩
    have hp' := hp
    obtain ⟨_, hn, hlast, _, _, hch, _⟩ := hp'
    refine ⟨p.reverse, ?_, ?_⟩
    · refine pathsFrom_all hW c _ (by rw [List.head?_reverse]; exact hlast) ?_ (nodup_reverse' p hn)
      rw [chainB_reverse (adj_comm G)]; exact hch
    · rw [List.reverse_reverse]; exact decide_eq_true hp

end C18
