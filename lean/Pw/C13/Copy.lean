import Pw.C13.Proofs

/-! # C13 — `copy()` returns an equal graph

For every state satisfying the invariant (hence every reachable state) of a class without mark
guards (`StationaryTimeSeriesGraph / DiGraph / MixedEdgeGraph / PAG`), the model of `copy()` – a fresh
graph, every node re-added, the adjacency entries into lag 0 (mixed-edge classes) resp. the forward
adjacency entries (plain graphs) re-added through the public `add_edge` – does not raise and yields the
same node set, the same `max_lag` and the same edge set per edge type (`copy_same`). -/
namespace C13

theorem toNode_tnode (n : Node) : toNode (tnode n) = n := by
  obtain ⟨x, a⟩ := n
  simp [toNode, tnode, lag]

theorem valid_tnode (m : Nat) (n : Node) : valid m (tnode n) = decide (n.2 ≤ m) := by
  obtain ⟨x, a⟩ := n
  simp [valid, tnode, lag]

theorem okEdge_tnode {m : Nat} {e : Edge} (h1 : e.1.2 ≤ m) (h2 : e.2.2 ≤ m) (hf : e.2.2 ≤ e.1.2) :
    okEdge m (tnode e.1) (tnode e.2) = true := by
  simp only [okEdge, valid_tnode, Bool.and_eq_true, decide_eq_true_eq, Bool.not_eq_true',
    decide_eq_false_iff_not]
  refine ⟨⟨h1, h2⟩, ?_⟩
  simp only [tnode]
  omega

theorem hasNode_tnode {t : St} {n : Node} (h : n ∈ t.nodes) : hasNode t (tnode n) = true := by
  simp only [hasNode, toNode_tnode, Bool.and_eq_true, decide_eq_true_eq, List.contains_eq_mem]
  exact ⟨by simp only [tnode]; omega, h⟩

/-! ## `mapSel` with a single selected layer -/

theorem mapSel_length (sel : Sel) (f : Layer → Layer) : ∀ (ls : List Layer) (j : Nat),
    (mapSel sel f j ls).length = ls.length
  | [], _ => rfl
  | _ :: r, j => by simp [mapSel, mapSel_length sel f r (j + 1)]

theorem mapSel_one_gt {i : Nat} (f : Layer → Layer) : ∀ (ls : List Layer) (j : Nat), i < j →
    mapSel (.one i) f j ls = ls
  | [], _, _ => rfl
  | L :: r, j, h => by
    have : (i == j) = false := by simp; omega
    have ih := mapSel_one_gt f r (j + 1) (Nat.lt_succ_of_lt h)
    simp [mapSel, selHas, this, ih]

theorem mapSel_one_append {i : Nat} (f : Layer → Layer) (L : Layer) (rest : List Layer) :
    ∀ (pre : List Layer) (j : Nat), j + pre.length = i →
      mapSel (.one i) f j (pre ++ L :: rest) = pre ++ f L :: rest
  | [], j, h => by
    simp at h
    subst h
    have ih := mapSel_one_gt f rest (j + 1) (Nat.lt_succ_self j)
    simp [mapSel, selHas, ih]
  | P :: pre, j, h => by
    have : (i == j) = false := by simp at h ⊢; omega
    simp only [List.cons_append, mapSel, selHas, this]
    rw [mapSel_one_append f L rest pre (j + 1) (by simp at h; omega)]
    simp

theorem mapSel_comp (sel : Sel) (f g : Layer → Layer) : ∀ (ls : List Layer) (j : Nat),
    mapSel sel g j (mapSel sel f j ls) = mapSel sel (fun L => g (f L)) j ls
  | [], _ => rfl
  | L :: r, j => by
    simp only [mapSel, mapSel_comp sel f g r (j + 1)]
    split <;> rfl

theorem mapSel_id (sel : Sel) : ∀ (ls : List Layer) (j : Nat), mapSel sel (fun L => L) j ls = ls
  | [], _ => rfl
  | L :: r, j => by simp [mapSel, mapSel_id sel r (j + 1)]

/-! ## one `add_edge` of the copy loop -/

/-- the selector of the copy loop is admissible: mixed-edge classes name an existing layer, plain
graphs have their single layer -/
def SelOK (cfg : Cfg) (i n : Nat) : Prop := if cfg.mixed then i < n else (i = 0 ∧ n ≤ 1)

theorem addEdge_copy {cfg : Cfg} (hg : cfg.guard = .none) {t : St} (hi : Inv t) {i : Nat}
    (hsel : SelOK cfg i t.layers.length) {e : Edge} (h1 : e.1 ∈ t.nodes) (h2 : e.2 ∈ t.nodes)
    (hf : e.2.2 ≤ e.1.2) :
    ∃ t', addEdge cfg t (.one i) (tnode e.1) (tnode e.2) = (t', false) ∧ t'.maxLag = t.maxLag ∧
      (∀ n, n ∈ t'.nodes ↔ n ∈ t.nodes) ∧
      t'.layers = mapSel (.one i) (·.add t.maxLag (tnode e.1) (tnode e.2)) 0 t.layers := by
  obtain ⟨⟨x, a⟩, ⟨y, b⟩⟩ := e
  have hw1 := (hi.1 x a h1).1
  have hw2 := (hi.1 y b h2).1
  have hok := okEdge_tnode (e := ((x, a), (y, b))) hw1 hw2 hf
  unfold addEdge SelOK at *
  by_cases hm : cfg.mixed = true
  · simp only [hm, if_true] at hsel ⊢
    have hgb : guardBad cfg t (.one i) (tnode (x, a)) (tnode (y, b)) = false := by
      simp [guardBad, hg]
    have e1 : ensureNode t (tnode (x, a)) = some t := by simp [ensureNode, hasNode_tnode h1]
    have e2 : ensureNode t (tnode (y, b)) = some t := by simp [ensureNode, hasNode_tnode h2]
    have hs : selOk t.layers.length (.one i) = true := by simp [selOk, hsel]
    have hok' : okEdge t.maxLag (tnode (x, a)) (tnode (y, b)) = true := hok
    simp only [addEdgeMixed, hgb, e1, e2, hs, hok', Bool.false_eq_true, if_false, Bool.not_true]
    exact ⟨_, rfl, rfl, fun _ => Iff.rfl, rfl⟩
  · simp only [hm] at hsel ⊢
    simp only [Bool.false_eq_true, if_false, addEdgeBase, hok]
    refine ⟨_, rfl, rfl, ?_, ?_⟩
    · intro n
      simp only [St.addVar, mem_addVarNodes]
      constructor
      · rintro ((h | ⟨h3, h4⟩) | ⟨h3, h4⟩)
        · exact h
        · have := (hi.1 x a h1).2 n.2 h4
          have h3' : n.1 = x := h3
          rw [← h3'] at this; exact this
        · have := (hi.1 y b h2).2 n.2 h4
          have h3' : n.1 = y := h3
          rw [← h3'] at this; exact this
      · exact fun h => Or.inl (Or.inl h)
    · obtain ⟨rfl, hlen⟩ := hsel
      simp only [St.addVar]
      match hl : t.layers with
      | [] => rfl
      | [L] => simp [mapSel, selHas]
      | _ :: _ :: _ => simp [hl] at hlen

/-- the whole inner loop for one edge type -/
theorem foldAdd_copy {cfg : Cfg} (hg : cfg.guard = .none) {i : Nat} : ∀ (es : List Edge) (t : St),
    Inv t → SelOK cfg i t.layers.length →
    (∀ e ∈ es, e.1 ∈ t.nodes ∧ e.2 ∈ t.nodes ∧ e.2.2 ≤ e.1.2) →
    ∃ t', foldAdd cfg i (t, false) es = (t', false) ∧ t'.maxLag = t.maxLag ∧
      (∀ n, n ∈ t'.nodes ↔ n ∈ t.nodes) ∧ Inv t' ∧
      t'.layers = mapSel (.one i)
        (fun L => es.foldl (fun L e => L.add t.maxLag (tnode e.1) (tnode e.2)) L) 0 t.layers
  | [], t, hi, _, _ => ⟨t, rfl, rfl, fun _ => Iff.rfl, hi, by simp [mapSel_id]⟩
  | e :: es, t, hi, hsel, hes => by
    obtain ⟨h1, h2, hf⟩ := hes e (List.mem_cons_self ..)
    obtain ⟨t1, ht1, hm1, hn1, hl1⟩ := addEdge_copy hg hi hsel h1 h2 hf
    have hi1 : Inv t1 := by
      have := inv_addEdge cfg hi (.one i) (tnode e.1) (tnode e.2)
      rw [ht1] at this; exact this
    have hsel1 : SelOK cfg i t1.layers.length := by
      rw [hl1, mapSel_length]; exact hsel
    obtain ⟨t2, ht2, hm2, hn2, hi2, hl2⟩ := foldAdd_copy hg es t1 hi1 hsel1
      (fun e' he' => by
        obtain ⟨a, b, c⟩ := hes e' (List.mem_cons_of_mem _ he')
        exact ⟨(hn1 _).2 a, (hn1 _).2 b, c⟩)
    refine ⟨t2, ?_, by rw [hm2, hm1], fun n => (hn2 n).trans (hn1 n), hi2, ?_⟩
    · simp only [foldAdd, ht1, ht2]
    · rw [hl2, hl1, mapSel_comp, hm1]
      rfl

/-! ## all edge types -/

/-- what the copy loop does to the list of layers -/
def copyLoop (mixed : Bool) (m : Nat) : Nat → List Layer → List Layer → List Layer
  | _, [], layers => layers
  | i, L0 :: Ls, layers =>
    copyLoop mixed m (i + 1) Ls (mapSel (.one i)
      (fun L => (copyCands mixed L0).foldl (fun L e => L.add m (tnode e.1) (tnode e.2)) L) 0 layers)

theorem copyLoop_length (mixed : Bool) (m : Nat) : ∀ (Ls : List Layer) (i : Nat) (layers : List Layer),
    (copyLoop mixed m i Ls layers).length = layers.length
  | [], _, _ => rfl
  | _ :: Ls, i, layers => by simp [copyLoop, copyLoop_length mixed m Ls (i + 1), mapSel_length]

theorem copyLayers_copy {cfg : Cfg} (hg : cfg.guard = .none) : ∀ (Ls : List Layer) (i : Nat) (t : St),
    Inv t → (∀ k, k < Ls.length → SelOK cfg (i + k) t.layers.length) →
    (∀ L0 ∈ Ls, ∀ e ∈ copyCands cfg.mixed L0, e.1 ∈ t.nodes ∧ e.2 ∈ t.nodes ∧ e.2.2 ≤ e.1.2) →
    ∃ t', copyLayers cfg i (t, false) Ls = (t', false) ∧ t'.maxLag = t.maxLag ∧
      (∀ n, n ∈ t'.nodes ↔ n ∈ t.nodes) ∧ t'.layers = copyLoop cfg.mixed t.maxLag i Ls t.layers
  | [], _, t, _, _, _ => ⟨t, rfl, rfl, fun _ => Iff.rfl, rfl⟩
  | L0 :: Ls, i, t, hi, hsel, hes => by
    obtain ⟨t1, ht1, hm1, hn1, hi1, hl1⟩ := foldAdd_copy hg (copyCands cfg.mixed L0) t hi
      (by simpa using hsel 0 (by simp)) (hes L0 (List.mem_cons_self ..))
    obtain ⟨t2, ht2, hm2, hn2, hl2⟩ := copyLayers_copy hg Ls (i + 1) t1 hi1
      (fun k hk => by
        have := hsel (k + 1) (by simp; omega)
        rw [hl1, mapSel_length]
        rwa [show i + (k + 1) = i + 1 + k by omega] at this)
      (fun L hL e he => by
        obtain ⟨a, b, c⟩ := hes L (List.mem_cons_of_mem _ hL) e he
        exact ⟨(hn1 _).2 a, (hn1 _).2 b, c⟩)
    refine ⟨t2, ?_, by rw [hm2, hm1], fun n => (hn2 n).trans (hn1 n), ?_⟩
    · simp only [copyLayers, ht1, ht2]
    · rw [hl2, hl1, hm1]; rfl

/-- closed form of the loop: layer `k` receives exactly the candidates of the `k`-th original layer -/
theorem copyLoop_eq (mixed : Bool) (m : Nat) : ∀ (Ls : List Layer) (pre rest : List Layer),
    rest.length = Ls.length →
    copyLoop mixed m pre.length Ls (pre ++ rest) = pre ++ List.zipWith
      (fun L0 L => (copyCands mixed L0).foldl (fun L e => L.add m (tnode e.1) (tnode e.2)) L) Ls rest
  | [], pre, rest, h => by
    have : rest = [] := List.eq_nil_of_length_eq_zero (by simpa using h)
    subst this; simp [copyLoop]
  | L0 :: Ls, pre, R :: rest, h => by
    simp only [copyLoop]
    rw [mapSel_one_append _ R rest pre 0 (by simp)]
    have := copyLoop_eq mixed m Ls
      (pre ++ [(copyCands mixed L0).foldl (fun L e => L.add m (tnode e.1) (tnode e.2)) R]) rest
      (by simpa using h)
    simp only [List.length_append, List.length_cons, List.length_nil, Nat.zero_add,
      List.append_assoc, List.cons_append, List.nil_append] at this
    rw [this]
    simp
  | _ :: _, _, [], h => by simp at h

/-! ## membership in a re-added layer -/

theorem foldl_add_kind (m : Nat) : ∀ (es : List Edge) (L : Layer),
    (es.foldl (fun L e => L.add m (tnode e.1) (tnode e.2)) L).kind = L.kind
  | [], _ => rfl
  | _ :: es, L => by
    simp only [List.foldl_cons]
    rw [foldl_add_kind m es]; rfl

theorem mem_foldl_add {m : Nat} {p : Edge} : ∀ (es : List Edge) (L : Layer),
    p ∈ (es.foldl (fun L e => L.add m (tnode e.1) (tnode e.2)) L).edges ↔
      p ∈ L.edges ∨ ∃ e ∈ es, p ∈ copies L.kind m e
  | [], L => by simp
  | e :: es, L => by
    simp only [List.foldl_cons, List.mem_cons]
    rw [mem_foldl_add es]
    simp only [Layer.add, mem_union, toNode_tnode]
    constructor
    · rintro ((h | h) | ⟨e', h1, h2⟩)
      · exact Or.inl h
      · exact Or.inr ⟨e, Or.inl rfl, h⟩
      · exact Or.inr ⟨e', Or.inr h1, h2⟩
    · rintro (h | ⟨e', rfl | h1, h2⟩)
      · exact Or.inl (Or.inl h)
      · exact Or.inl (Or.inr h2)
      · exact Or.inr ⟨e', h1, h2⟩

theorem mem_copyCands {mixed : Bool} {L : Layer} {e : Edge} :
    e ∈ copyCands mixed L ↔ (e ∈ L.edges ∨ (L.kind = .und ∧ swap e ∈ L.edges)) ∧
      (if mixed then e.2.2 = 0 else e.2.2 ≤ e.1.2) := by
  have hsw : ∀ e : Edge, e ∈ L.edges.map swap ↔ swap e ∈ L.edges := by
    intro e
    simp only [List.mem_map]
    constructor
    · rintro ⟨e', h, rfl⟩; simpa [swap] using h
    · intro h; exact ⟨swap e, h, by simp [swap]⟩
  unfold copyCands
  cases hk : L.kind <;> cases mixed <;> simp [List.mem_filter, hsw, or_and_right]

theorem canonUnd_swap_of_eq_lag {e : Edge} (h : e.1.2 = e.2.2) : canonUnd e = canonUnd (swap e) := by
  obtain ⟨⟨x, a⟩, ⟨y, b⟩⟩ := e
  simp only at h
  subst h
  unfold canonUnd swap
  simp only [Nat.lt_irrefl, if_false, true_and]
  by_cases hxy : x < y
  · have : ¬ y < x := by omega
    simp [hxy, this]
  · by_cases hyx : y < x
    · simp [hxy, hyx]
    · have : x = y := by omega
      subst this; simp

/-- the re-added layer has exactly the original edges -/
theorem readd_edges {nodes : List Node} {m : Nat} {mixed : Bool} {L : Layer} (hc : Complete nodes m)
    (hL : LayerInv nodes m L) (p : Edge) :
    p ∈ ((copyCands mixed L).foldl (fun (L : Layer) e => L.add m (tnode e.1) (tnode e.2))
      (⟨L.kind, []⟩ : Layer)).edges ↔ p ∈ L.edges := by
  obtain ⟨h1, h2, h3, h4⟩ := hL
  have hw := inWin_of hc h1
  rw [mem_foldl_add]
  simp only [List.not_mem_nil, false_or]
  constructor
  · rintro ⟨e, he, hp⟩
    rw [mem_copyCands] at he
    obtain ⟨hmem, hfil⟩ := he
    -- the canonical / stored form of the candidate is an edge of the layer
    have key : ∃ e' ∈ L.edges, copies L.kind m e = copies L.kind m e' := by
      rcases hmem with hmem | ⟨hk, hmem⟩
      · exact ⟨e, hmem, rfl⟩
      · refine ⟨swap e, hmem, ?_⟩
        obtain ⟨⟨x, a⟩, ⟨y, b⟩⟩ := e
        have hfw := h3 y b x a (by simpa [swap] using hmem)
        have hab : a = b := by
          cases mixed <;> simp at hfil <;> omega
        simp only [hk, copies, canonUnd_swap_of_eq_lag (e := ((x, a), (y, b))) hab]
    obtain ⟨e', he', hcp⟩ := key
    rw [hcp] at hp
    obtain ⟨⟨x, a⟩, ⟨y, b⟩⟩ := e'
    have hf := h3 x a y b he'
    obtain ⟨hwa, hwb⟩ := hw _ he'
    by_cases hk : L.kind = .und
    · rw [hk, mem_copies_und, h4 hk _ he'] at hp
      obtain ⟨i, hi, rfl⟩ := hp
      exact h2 x a y b he' _ _ (by simp at hi ⊢; omega) (by simp at hi ⊢; omega) (by simp; omega)
    · rw [mem_copies_fwd hk hf] at hp
      obtain ⟨i, hi, rfl⟩ := hp
      exact h2 x a y b he' _ _ (by simp at hi ⊢; omega) (by simp at hi ⊢; omega) (by simp; omega)
  · intro hp
    obtain ⟨⟨x, a⟩, ⟨y, b⟩⟩ := p
    have hf := h3 x a y b hp
    obtain ⟨hwa, hwb⟩ := hw _ hp
    simp only at hwa hwb
    cases mixed
    · -- plain graph: the edge itself is a candidate
      refine ⟨((x, a), (y, b)), mem_copyCands.2 ⟨Or.inl hp, by simpa using hf⟩, ?_⟩
      exact shift_mem_copies hf (fun hu => h4 hu _ hp) hwa hwb rfl
    · -- mixed-edge graph: its shift into lag 0 is a candidate
      have h0 : ((x, a - b), (y, 0)) ∈ L.edges := h2 x a y b hp (a - b) 0 (by omega) (by omega) (by omega)
      refine ⟨((x, a - b), (y, 0)), mem_copyCands.2 ⟨Or.inl h0, by simp⟩, ?_⟩
      exact shift_mem_copies (Nat.zero_le _) (fun hu => h4 hu _ h0) hwa hwb (by omega)

/-! ## the theorem -/

theorem mem_foldl_addVar {m : Nat} {n : Node} : ∀ (ns : List Node) (t : St), t.maxLag = m →
    (n ∈ (ns.foldl (fun acc n => acc.addVar n.1) t).nodes ↔
      n ∈ t.nodes ∨ ∃ n' ∈ ns, n.1 = n'.1 ∧ n.2 ≤ m)
  | [], t, _ => by simp
  | n0 :: ns, t, hm => by
    simp only [List.foldl_cons, List.mem_cons]
    rw [mem_foldl_addVar ns (t.addVar n0.1) (by simpa [St.addVar] using hm)]
    simp only [St.addVar, mem_addVarNodes, hm]
    constructor
    · rintro ((h | ⟨h1, h2⟩) | ⟨n', h1, h2⟩)
      · exact Or.inl h
      · exact Or.inr ⟨n0, Or.inl rfl, h1, h2⟩
      · exact Or.inr ⟨n', Or.inr h1, h2⟩
    · rintro (h | ⟨n', rfl | h1, h2⟩)
      · exact Or.inl (Or.inl h)
      · exact Or.inl (Or.inr h2)
      · exact Or.inr ⟨n', h1, h2⟩

theorem foldl_addVar_frame : ∀ (ns : List Node) (t : St),
    (ns.foldl (fun acc n => acc.addVar n.1) t).maxLag = t.maxLag ∧
    (ns.foldl (fun acc n => acc.addVar n.1) t).layers = t.layers
  | [], _ => ⟨rfl, rfl⟩
  | _ :: ns, t => by
    simp only [List.foldl_cons]
    obtain ⟨a, b⟩ := foldl_addVar_frame ns (t.addVar _)
    exact ⟨a, b⟩

/-- the copy clause, given that the edge loop of `copy()` runs through without raising and ends in the
closed form `copyLoop` (that is the only place where the mark guard of a class can interfere: the
unguarded classes discharge `hloop` by `copyLayers_copy`, the CPDAG by `Pw/C13/Cpdag.lean`) -/
theorem copy_same_of_loop (cfg : Cfg) (s : St) (hi : Inv s)
    (hloop : ∀ s1 : St, Inv s1 → s1.maxLag = s.maxLag →
      s1.layers = s.layers.map (fun L => (⟨L.kind, []⟩ : Layer)) → (∀ n, n ∈ s1.nodes ↔ n ∈ s.nodes) →
      ∃ t, copyLayers cfg 0 (s1, false) s.layers = (t, false) ∧ t.maxLag = s1.maxLag ∧
        (∀ n, n ∈ t.nodes ↔ n ∈ s1.nodes) ∧ t.layers = copyLoop cfg.mixed s1.maxLag 0 s.layers s1.layers) :
    (copy cfg s).2 = false ∧ Same (copy cfg s).1 s := by
  obtain ⟨hc, hl⟩ := hi
  have hany : (s.nodes.any fun n => decide (s.maxLag < n.2)) = false := by
    rw [List.any_eq_false]
    intro n hn
    have := (hc n.1 n.2 hn).1
    simp; omega
  let s0 : St := ⟨[], s.maxLag, s.layers.map fun L => ⟨L.kind, []⟩⟩
  have h0 : Inv s0 := by
    refine ⟨fun x a h => by simp [s0] at h, fun L hL => ?_⟩
    simp only [s0, List.mem_map] at hL
    obtain ⟨k, _, rfl⟩ := hL
    exact ⟨fun e h => by simp at h, fun x a y b h => by simp at h, fun x a y b h => by simp at h,
      fun _ e h => by simp at h⟩
  let s1 := s.nodes.foldl (fun acc n => acc.addVar n.1) s0
  have hi1 : Inv s1 := foldl_inv (fun s n hs => inv_addVar hs n.1) _ _ h0
  obtain ⟨hm1, hl1⟩ := foldl_addVar_frame s.nodes s0
  have hn1 : ∀ n, n ∈ s1.nodes ↔ n ∈ s.nodes := by
    intro n
    rw [mem_foldl_addVar (m := s.maxLag) s.nodes s0 rfl]
    simp only [s0, List.not_mem_nil, false_or]
    constructor
    · rintro ⟨n', hn', h1, h2⟩
      have := (hc n'.1 n'.2 hn').2 n.2 h2
      rw [← h1] at this; exact this
    · intro hn
      exact ⟨n, hn, rfl, (hc n.1 n.2 hn).1⟩
  have hlen1 : s1.layers.length = s.layers.length := by
    show (s.nodes.foldl (fun acc n => acc.addVar n.1) s0).layers.length = _
    rw [hl1]; simp [s0]
  obtain ⟨t, ht, hmt, hnt, hlt⟩ := hloop s1 hi1 hm1 hl1 hn1
  have hcopy : copy cfg s = (t, false) := by
    unfold copy
    simp only [hany, Bool.false_eq_true, if_false]
    exact ht
  have hlayers : t.layers = List.zipWith
      (fun L0 L => (copyCands cfg.mixed L0).foldl (fun L e => L.add s.maxLag (tnode e.1) (tnode e.2)) L)
      s.layers (s.layers.map fun L => ⟨L.kind, []⟩) := by
    rw [hlt]
    have := copyLoop_eq cfg.mixed s.maxLag s.layers [] (s.layers.map fun L => ⟨L.kind, []⟩) (by simp)
    simp only [List.length_nil, List.nil_append] at this
    have hs1 : s1.layers = s.layers.map fun L => ⟨L.kind, []⟩ := hl1
    rw [hs1, show s1.maxLag = s.maxLag from hm1]
    exact this
  rw [hcopy]
  refine ⟨rfl, fun n => (hnt n).trans (hn1 n), by rw [hmt]; exact hm1, ?_, ?_⟩
  · rw [hlayers]; simp
  · intro i L L' h1 h2
    rw [hlayers] at h1
    simp only [List.zipWith_map_right, List.zipWith_self, List.getElem?_map] at h1
    rw [h2] at h1
    simp only [Option.map_some, Option.some.injEq] at h1
    subst h1
    have hL' := hl L' (List.mem_of_getElem? h2)
    exact ⟨foldl_add_kind _ _ _, fun p => readd_edges hc hL' p⟩

/-- the candidates of the copy loop join nodes of the graph and point forward in time -/
theorem copyCands_ends {nodes : List Node} {m : Nat} {mixed : Bool} {L0 : Layer}
    (hL : LayerInv nodes m L0) {e : Edge} (he : e ∈ copyCands mixed L0) :
    e.1 ∈ nodes ∧ e.2 ∈ nodes ∧ e.2.2 ≤ e.1.2 := by
  obtain ⟨h1, _, h3, _⟩ := hL
  rw [mem_copyCands] at he
  obtain ⟨hmem, hfil⟩ := he
  refine ⟨?_, ?_, ?_⟩
  · rcases hmem with hmem | ⟨_, hmem⟩
    · exact (h1 _ hmem).1
    · simpa [swap] using (h1 _ hmem).2
  · rcases hmem with hmem | ⟨_, hmem⟩
    · exact (h1 _ hmem).2
    · simpa [swap] using (h1 _ hmem).1
  · cases mixed <;> simp at hfil <;> omega

/-- **C13, copy clause** (classes without mark guards: Graph, DiGraph, MixedEdgeGraph, PAG): in every
state satisfying the invariant – hence after every history – `copy()` does not raise and returns a
graph with the same nodes, the same max_lag and the same edges of every edge type. -/
theorem copy_same (cfg : Cfg) (hg : cfg.guard = .none) (s : St) (hi : Inv s)
    (hbase : cfg.mixed = false → s.layers.length ≤ 1) :
    (copy cfg s).2 = false ∧ Same (copy cfg s).1 s := by
  refine copy_same_of_loop cfg s hi (fun s1 hi1 _ hl1 hn1 => ?_)
  have hlen1 : s1.layers.length = s.layers.length := by rw [hl1]; simp
  exact copyLayers_copy hg s.layers 0 s1 hi1
    (fun k hk => by
      unfold SelOK
      rw [hlen1]
      by_cases hm : cfg.mixed = true
      · simp [hm]; omega
      · simp only [hm, Bool.false_eq_true, if_false]
        have := hbase (by simpa using hm)
        omega)
    (fun L0 hL0 e he => by
      obtain ⟨a, b, c⟩ := copyCands_ends (hi.2 L0 hL0) he
      exact ⟨(hn1 _).2 a, (hn1 _).2 b, c⟩)

end C13
