import Pw.C09.Dec
open Closure

/-! # C09: correctness of the parts of the run-time validator that have a short proof -/
namespace C09
open MG

/-- `ancestralB` decides `Ancestral` (no directed cycle, no `<->` between a node and its ancestor) -/
theorem ancestralB_iff {M : MG} (hwf : M.WF) : ancestralB M = true ↔ Ancestral M := by
  unfold ancestralB Ancestral
  simp only [Bool.and_eq_true, Bool.not_eq_true', List.all_eq_true, Bool.or_eq_false_iff,
    decide_eq_false_iff_not]
  rw [hasCycle_false_iff M hwf]
  have hmem : ∀ {a b : Nat}, b ∈ M.nodes → (a ∈ M.anc [b] ↔ Anc M a b) := by
    intro a b hb
    rw [mem_anc hwf (Z := [b]) (by intro z hz; rw [List.mem_singleton] at hz; rw [hz]; exact hb)]
    unfold ColliderOpen
    simp
  constructor
  · rintro ⟨hac, hbi⟩
    refine ⟨hac, ?_⟩
    rintro a b (h | h)
    · have := hbi (a, b) h
      exact fun hab => this.1 ((hmem (hwf.2.1 _ h).2).mpr hab)
    · have := hbi (b, a) h
      exact fun hab => this.2 ((hmem (hwf.2.1 _ h).1).mpr hab)
  · rintro ⟨hac, hbi⟩
    refine ⟨hac, ?_⟩
    rintro ⟨a, b⟩ h
    exact ⟨fun hab => hbi a b (Or.inl h) ((hmem (hwf.2.1 _ h).2).mp hab),
      fun hba => hbi b a (Or.inr h) ((hmem (hwf.2.1 _ h).1).mp hba)⟩

/-- a single query of the validator is the path-level m-separation statement of C01 -/
theorem sepOf_iff {M : MG} (hwf : M.WF) (hun : M.un = []) (hsl : NoSelfLoop M)
    (x y : Nat) (Z : List Nat) (hx : x ∈ M.nodes) (hZ : ∀ z ∈ Z, z ∈ M.nodes) (hxZ : x ∉ Z) :
    sepOf M (x, y, Z) = true ↔ MSep M [x] [y] Z := by
  unfold sepOf
  exact mSeparated_iff_MSep M hwf (noUndirAtHead_of_un_nil M hun) hsl [x] [y] Z
    (by intro v hv; rw [List.mem_singleton] at hv; rw [hv]; exact hx) hZ
    (by intro v hv; rw [List.mem_singleton] at hv; rw [hv]; exact hxZ)

end C09
