import Pw.C03.Table
import Pw.C03.Lift
/-! C03 — tightness and the bulk/single correspondence.

* `GoodP` / `GoodC` are not merely *an* invariant: every Good pair state is reached from the empty
  pair by guarded single additions that are all accepted (`buildP_reaches`, `buildC_reaches`), so
  together with `addP_good` the Good states are exactly the pair states reachable without 'all'.
  (This is also why `MixedEdgeGraph.copy`, which re-inserts every entry through the guarded
  `add_edge`, never raises on a graph without contradictory marks.)
* an accepted bulk call is the history of its single calls; a rejected one is a history in which some
  single call raises (`bulk_eq_run`, `bulk_raises_iff`). -/
namespace C03

/-- add on the pair read the other way round: `add_edge(v, u, t)` -/
def addSwapP (t : ET) (s : PBits) : PBits × Bool := let r := addP t s.swap; (r.1.swap, r.2)
def addSwapC (t : ET) (s : CBits) : CBits × Bool := let r := addC t s.swap; (r.1.swap, r.2)

/-- a fixed insertion order: undirected, bidirected, circle both ways, directed both ways;
    an entry is only inserted when the target state has it -/
def buildP (s : PBits) : PBits × Bool :=
  let step (want : Bool) (f : PBits → PBits × Bool) (acc : PBits × Bool) : PBits × Bool :=
    if want then (let r := f acc.1; (r.1, acc.2 || r.2)) else acc
  step s.directed_vu (addSwapP .directed) <| step s.directed_uv (addP .directed) <|
  step s.circle_vu (addSwapP .circle) <| step s.circle_uv (addP .circle) <|
  step s.bi (addP .bidirected) <| step s.un (addP .undirected) (PBits.empty, false)

def buildC (s : CBits) : CBits × Bool :=
  let step (want : Bool) (f : CBits → CBits × Bool) (acc : CBits × Bool) : CBits × Bool :=
    if want then (let r := f acc.1; (r.1, acc.2 || r.2)) else acc
  step s.directed_vu (addSwapC .directed) <| step s.directed_uv (addC .directed) <|
  step s.un (addC .undirected) (CBits.empty, false)

/-- every Good PAG pair state is reachable from the empty pair by accepted guarded additions -/
theorem buildP_reaches (s : PBits) (hg : GoodP s = true) : buildP s = (s, false) := by
  rcases s with ⟨a, b, c, d, e, f⟩
  revert a b c d e f; decide

theorem buildC_reaches (s : CBits) (hg : GoodC s = true) : buildC s = (s, false) := by
  rcases s with ⟨a, b, c⟩
  revert a b c; decide

/-- … and in *any* insertion order of two entries the guard accepts the second iff the result is
    Good (order independence of reachability on a pair: consequence of exactness) -/
theorem addP_accept_iff_good (t : ET) (ht : t ≠ .all) (ho : t ≠ .other) (s : PBits) (hg : GoodP s = true) :
    ((addP t s).2 = false ↔ GoodP (addP t s).1 = true ∧ (addP t s).1 = rawAddP t s) := by
  rcases s with ⟨a, b, c, d, e, f⟩
  cases t <;> first | exact absurd rfl ht | exact absurd rfl ho | (revert a b c d e f; decide)

/-! ### bulk = history of singles -/

variable {σ : Type} [PairState σ]

/-- a history, remembering whether any call raised -/
def runFlag (M : Sem σ) : PairMap σ → List Op → PairMap σ × Bool
  | g, [] => (g, false)
  | g, op :: ops =>
    let r := step M g op
    let q := runFlag M r.1 ops
    (q.1, r.2 || q.2)

theorem bulk_spec (f : σ → σ × Bool) (g0 : PairMap σ) (es : List (Nat × Nat)) :
    ∀ g : PairMap σ,
      ((bulk f g0 g es).2 = false →
        (bulk f g0 g es).1 = (es.foldl (fun h e => (applyAt f h e.1 e.2).1) g)) ∧
      ((bulk f g0 g es).2 = true → (bulk f g0 g es).1 = g0) := by
  induction es with
  | nil => intro g; simp [bulk]
  | cons e es ih =>
    intro g
    rcases e with ⟨u, v⟩
    unfold bulk
    by_cases hr : (applyAt f g u v).2 = true
    · simp [hr]
    · simp only [hr, List.foldl_cons]
      exact ih _

/-- an accepted `add_edges_from(es, t)` ends in the same graph as the single calls
    `add_edge(u, v, t)` for the members in order, none of which raises -/
theorem bulk_eq_run (M : Sem σ) (t : ET) (g : PairMap σ) (es : List (Nat × Nat))
    (ha : (step M g (.addBulk t es)).2 = false) :
    runFlag M g (es.map fun e => Op.add t e.1 e.2) = ((step M g (.addBulk t es)).1, false) := by
  simp only [step] at ha ⊢
  split at ha
  · rename_i hk
    simp only [hk, if_true]
    -- generalise the start graph of the fold, keep g0 fixed
    suffices h : ∀ (g0 h : PairMap σ), (bulk (M.add t) g0 h es).2 = false →
        runFlag M h (es.map fun e => Op.add t e.1 e.2) = ((bulk (M.add t) g0 h es).1, false) from h g g ha
    intro g0
    clear ha
    induction es with
    | nil => intro h _; simp [runFlag, bulk]
    | cons e es ih =>
      intro h hb
      rcases e with ⟨u, v⟩
      unfold bulk at hb ⊢
      by_cases hr : (applyAt (M.add t) h u v).2 = true
      · simp [hr] at hb
      · rw [if_neg hr] at hb ⊢
        simp only [List.map_cons, runFlag, step]
        have hr' : (applyAt (M.add t) h u v).2 = false := by simpa using hr
        rw [ih _ hb, hr']; rfl
  · simp at ha

/-- a bulk add of a known edge type raises iff, running the single calls in order, one raises -/
theorem bulk_raises_iff (M : Sem σ) (t : ET) (hk : M.known t = true) (g : PairMap σ) (es : List (Nat × Nat)) :
    (step M g (.addBulk t es)).2 = true ↔ (runFlag M g (es.map fun e => Op.add t e.1 e.2)).2 = true := by
  simp only [step, hk, if_true]
  suffices h : ∀ (g0 h : PairMap σ), (bulk (M.add t) g0 h es).2 = true ↔
      (runFlag M h (es.map fun e => Op.add t e.1 e.2)).2 = true from h g g
  intro g0
  induction es with
  | nil => intro h; simp [runFlag, bulk]
  | cons e es ih =>
    intro h
    rcases e with ⟨u, v⟩
    unfold bulk
    simp only [List.map_cons, runFlag, step]
    by_cases hr : (applyAt (M.add t) h u v).2 = true
    · simp [hr]
    · have hr' : (applyAt (M.add t) h u v).2 = false := by simpa using hr
      rw [if_neg hr]; simp only [hr', Bool.false_or]
      exact ih _

end C03
