import Pw.C18.Spec

/-! # C18 model: `uncovered_pd_path` and `discriminating_path` (pywhy_graphs/algorithms/pag.py),
`PAG.parents` / `PAG.possible_parents` (pywhy_graphs/classes/pag.py) — as they are after the `fix:`
commits on branch f-a18.

Both functions are breadth-first searches over *nodes* with one global `explored_nodes` set, a dict of
back-pointers `descendant_nodes` and a deque `path`; the result is rebuilt by following the
back-pointers.  They share the skeleton `inner`/`loop` below; what differs is (1) the list a popped
node iterates over, (2) the classification of a candidate `next_node` (`continue` / end of the search /
append to the deque) and (3) whether the `while` loop goes on after the `break` of the `for` loop
(`uncovered_pd_path`: yes, `discriminating_path`: no).

Modelling conventions
* Python sets/dicts: `explored : List Nat` (membership only), `desc : List (Nat × Nat)` with
  `List.lookup` (a key is written at most once, see `Inv`), deque = list (pop front, push back).
* Iteration order of `graph.neighbors(n)` (a Python set) is an *input* `nb : Nat → List Nat`; every
  theorem quantifies over all orders with `∀ a b, b ∈ nb a ↔ adj G a b`. Membership tests
  `x in graph.neighbors(y)` are `adj G y x`.
* The side-effect-free `continue` tests of a loop body are evaluated in one classification function;
  their relative order is immaterial.  The test `next_node in explored_nodes` comes first.
* `max_path_length=None` is the constant 1000: the loop gets fuel 1000 and reports `limit` when the
  1001st pop would happen (Python then returns the empty path). -/
namespace C18

/-- outcome of the tests on a candidate `next_node` -/
inductive Cls | skip | push | fin
deriving DecidableEq, Repr

structure St where
  explored : List Nat
  desc : List (Nat × Nat)
  queue : List Nat
  found : Bool := false
  /-- value of the Python variable `next_node` at the last `break` -/
  last : Option Nat := none
  limit : Bool := false
deriving Repr

/-- the `for next_node in …` loop of one popped node -/
def inner (cls : Option Nat → Nat → Nat → Cls) (this : Nat) (prev : Option Nat) : List Nat → St → St
  | [], s => s
  | next :: rest, s =>
    if next ∈ s.explored then inner cls this prev rest s
    else match cls prev this next with
      | .skip => inner cls this prev rest s
      | .fin =>  -- explored.add; descendant_nodes[next] = this; found = True; break
        { s with explored := next :: s.explored, desc := (next, this) :: s.desc, found := true,
                 last := some next }
      | .push => -- explored.add; descendant_nodes[next] = this; path.append(next)
        inner cls this prev rest
          { s with explored := next :: s.explored, desc := (next, this) :: s.desc,
                   queue := s.queue ++ [next] }

/-- the `while len(path) != 0` loop; `fuel` = max_path_length -/
def loop (iter : Nat → List Nat) (cls : Option Nat → Nat → Nat → Cls) (cont : Bool) : Nat → St → St
  | 0, s => if s.queue.isEmpty then s else { s with limit := true }
  | fuel + 1, s =>
    match s.queue with
    | [] => s
    | this :: q =>
      let s1 := inner cls this (s.desc.lookup this) (iter this) { s with queue := q }
      if s1.found && !cont then s1 else loop iter cls cont fuel s1

/-- follow the back-pointers from the head of the accumulator until `stop` is reached
    (`none`: Python would raise `KeyError` or never terminate) -/
def recon (desc : List (Nat × Nat)) (stop : Nat) : Nat → List Nat → Option (List Nat)
  | 0, _ => none
  | _, [] => none
  | fuel + 1, x :: acc =>
    if x == stop then some (x :: acc)
    else match desc.lookup x with
      | none => none
      | some y => recon desc stop fuel (y :: x :: acc)

/-! ## uncovered_pd_path -/

/-- the mark test of the loop body (after the fix): `this o-o next`; unless `force_circle` also
    `this -> next`, `this o-> next` (and `this -o next`) -/
def pdCode (G : MG) (fc : Bool) (x y : Nat) : Bool :=
  if fc then hC G x y && hC G y x
  else (hC G x y && !hD G y x) || hD G x y

def uncovCls (G : MG) (q : Query) (prev : Option Nat) (this next : Nat) : Cls :=
  -- forbidden node directly after u
  if this == q.u && q.forbid == some next then .skip
  -- shielded triple (prev, this, next)
  else if (match prev with | some p => adj G p next | none => false) then .skip
  -- potentially directed
  else if !pdCode G q.fc this next then .skip
  else if next == q.c then .fin
  else .push

def optList (o : Option Nat) : List Nat := o.toList

/-- the argument guards: `RuntimeError` if both first_node and second_node are given or an argument
    is not a node of the graph -/
def uncovGuard (G : MG) (q : Query) : Bool :=
  (q.first.isSome && q.second.isSome) ||
  !(decide (q.u ∈ G.nodes) && decide (q.c ∈ G.nodes) && (optList q.first).all (· ∈ G.nodes)
    && (optList q.second).all (· ∈ G.nodes))

/-- (fix) with second_node the edge u *-* second_node is the first edge of the path: it has to pass
    the mark test and second_node must not be the forbidden node -/
def secondBad (G : MG) (q : Query) : Bool :=
  match q.second with
  | some s => !pdCode G q.fc q.u s || q.forbid == some s
  | none => false

/-- state before the `while` loop: `explored_nodes = {u, first_node?, second_node?}`,
    `descendant_nodes = {u: first_node}` / `{second_node: u}`, `path = deque([start_node])` -/
def uncovInit (q : Query) : St :=
  { explored := optList q.second ++ optList q.first ++ [q.u],
    desc := (match q.first with | some f => [(q.u, f)] | none => []) ++
            (match q.second with | some s => [(s, q.u)] | none => []),
    queue := [q.second.getD q.u] }

/-- after the loop: rebuild the path from `c` back to `first_node` (or `u`) -/
def uncovFinish (q : Query) (s : St) : Except String (List Nat × Bool) :=
  if s.limit then .ok ([], s.found)
  else if s.found then
    match recon s.desc (q.first.getD q.u) (s.explored.length + 1) [q.c] with
    | some p => .ok (p, true)
    | none => .error "KeyError"
  else .ok ([], false)

/-- `uncovered_pd_path(graph, u, c, None, first_node, second_node, force_circle, forbid_node)`;
    returns `(path, found)` -/
def uncovPdPath (G : MG) (nb : Nat → List Nat) (q : Query) (maxLen : Nat := 1000) :
    Except String (List Nat × Bool) :=
  if uncovGuard G q then .error "RuntimeError"
  else if secondBad G q then .ok ([], false)
  else if q.second == some q.c then .ok ([q.u, q.c], true)
  else uncovFinish q (loop nb (uncovCls G q) true maxLen (uncovInit q))

/-! ## PAG.possible_parents / PAG.parents / discriminating_path -/

/-- `nbr in possible_parents(n)` for a neighbour `nbr` of `n` -/
def possParent (G : MG) (n nbr : Nat) : Bool := !hD G n nbr && !hB G nbr n && !hU G nbr n
/-- `x in parents(n)` for a neighbour `x` of `n` -/
def isParent (G : MG) (n x : Nat) : Bool := possParent G n x && !hC G n x && hD G x n

/-- `chain(possible_parents(this), parents(this), sub_bidirected_graph().neighbors(this))` -/
def discIter (G : MG) (nb bnb : Nat → List Nat) (this : Nat) : List Nat :=
  (nb this).filter (possParent G this) ++ ((nb this).filter (possParent G this)).filter (isParent G this)
    ++ bnb this

def discCls (G : MG) (c : Nat) (_prev : Option Nat) (this next : Nat) : Cls :=
  -- this_node must be a collider: arrowhead at this_node on the edge from next_node (fix)
  if !(hD G next this || hB G this next) then .skip
  -- end of the path: next_node not adjacent to c
  else if !adj G next c && next != c then .fin
  -- go on: next_node is a parent of c and this <-> next
  else if isParent G c next && hB G this next then .push
  else .skip

/-- the entry tests of `discriminating_path` -/
def discEntry (G : MG) (u a c : Nat) : Bool :=
  -- u must be adjacent to c (fix)
  adj G u c
  -- a must be a parent of c: only `has_edge(a, c, directed)` is tested (known finding: a o-> c passes)
  && hD G a c
  -- arrowhead at a on the edge a *-* u
  && (hB G a u || hD G u a)

def discInit (u a c : Nat) : St :=
  { explored := [a, u, c], desc := [(a, u), (u, c)], queue := [a] }

def discFinish (c : Nat) (s : St) : Except String (Bool × List Nat × List Nat) :=
  if s.limit then .ok (s.found, [], s.explored)
  else if s.found then
    match s.last with
    | none => .error "NameError"
    | some e =>
      match recon s.desc c (s.explored.length + 1) [e] with
      | some p => .ok (true, p.reverse, s.explored)
      | none => .error "KeyError"
  else .ok (false, [], s.explored)

/-- `discriminating_path(graph, u, a, c, None)`; returns `(found, path, explored)` -/
def discPath (G : MG) (nb bnb : Nat → List Nat) (u a c : Nat) (maxLen : Nat := 1000) :
    Except String (Bool × List Nat × List Nat) :=
  if !discEntry G u a c then .ok (false, [], [a, u, c])
  else discFinish c (loop (discIter G nb bnb) (discCls G c) false maxLen (discInit u a c))

/-- default iteration orders (ascending node order, bidirected layer in storage order) -/
def nbDefault (G : MG) (a : Nat) : List Nat := G.nodes.filter (adj G a)
def bnbDefault (G : MG) (a : Nat) : List Nat := MG.sym G.bi a

end C18
