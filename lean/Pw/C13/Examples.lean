import Pw.C13.Rejected

/-! # C13 — non-vacuity: the theorems speak about non-trivial histories

Each `example` is a kernel-checked *test* on one concrete history (not a proof of the property). -/
namespace C13

/-- a PAG history: lagged and contemporaneous edges in different edge types, a rejected backward
edge, growth, shrinking, a rejected bulk call, a copy -/
def exHistory : List Op :=
  [.addEdge (.one 0) (0, -1) (1, 0), .addEdge (.one 3) (0, 0) (2, 0), .addEdge (.one 1) (1, 0) (0, -1),
   .setMaxLag 3, .addEdges (.one 2) [((1, -3), (1, 0)), ((1, -1), (0, -4))], .setMaxLag 1, .copy,
   .removeEdge (.one 0) (0, -1) (1, 0), .setMaxLag 0]

/-- which operations of `exHistory` raise: the backward circle edge, the bulk call with a lag outside
the window, `set_max_lag(0)` -/
example : (run cfgPag (init cfgPag 2) exHistory).map (·.2) =
    [false, false, true, false, true, false, false, false, true] := by decide

/-- after growth to max_lag 3 the directed edge has its three copies and the contemporaneous
bidirected edge its four (the hypotheses of `C13_invariant` / `inv_grow` are met non-trivially) -/
example : ((run cfgPag (init cfgPag 2) exHistory)[3]?.map fun r => r.1.layers.map (·.edges.length)) =
    some [3, 0, 0, 4] := by decide

example : ((run cfgPag (init cfgPag 2) exHistory).all fun r => stationaryDec r.1) = true := by decide

/-- the rejected bulk call (step 4) really had something to leave unchanged (`step_rejected`) -/
example : ((run cfgPag (init cfgPag 2) exHistory)[4]?.map fun r => (r.2, r.1.layers.map (·.edges.length))) =
    some (true, [3, 0, 0, 4]) := by decide

/-- the decider rejects an incomplete node set, a missing homologous copy and a backward directed edge -/
example : stationaryDec ⟨[(0, 0), (0, 1), (1, 0)], 1, [⟨.dir, []⟩]⟩ = false := by decide
example : stationaryDec ⟨[(0, 0), (0, 1), (1, 0), (1, 1)], 1, [⟨.dir, [((0, 0), (1, 0))]⟩]⟩ = false := by decide
example : stationaryDec ⟨[(0, 0), (0, 1), (1, 0), (1, 1)], 1, [⟨.dir, [((0, 0), (1, 1))]⟩]⟩ = false := by decide
example : stationaryDec ⟨[(0, 0), (0, 1), (1, 0), (1, 1)], 1,
    [⟨.dir, [((0, 0), (1, 0)), ((0, 1), (1, 1))]⟩]⟩ = true := by decide

/-- the state the unchanged code reached by `set_max_lag(2)` on a graph with the contemporaneous edge
x(0) -> y(0) (no nodes at lag 2, no copy of the edge at lag 2) is not stationary -/
theorem C13_counterexample_grow_unfixed :
    ¬ Stationary ⟨[(0, 0), (0, 1), (1, 0), (1, 1)], 2, [⟨.dir, [((0, 0), (1, 0)), ((0, 1), (1, 1))]⟩]⟩ := by
  rw [← stationaryDec_iff]; decide

/-- … while the model of the fixed code reaches a stationary state with the three copies -/
example : (run cfgDigraph (init cfgDigraph 1) [.addEdge .all (0, 0) (1, 0), .setMaxLag 2]).map
    (fun r => (r.1.layers.map (·.edges.length), stationaryDec r.1)) = [([2], true), ([3], true)] := by decide

end C13
