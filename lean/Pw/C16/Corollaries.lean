import Pw.C16.Perm

/-! # C16: the two halves of the property tied together -/
namespace C16

theorem allSemiDirectedPaths_isSome {G : MG} {s : Nat} (hs : s ∈ G.nodes) (T : List Nat) (c : Option Nat) :
    ∃ l, allSemiDirectedPaths G s T c = some l := by
  unfold allSemiDirectedPaths
  simp only [hs, not_true_eq_false, if_false]
  split
  · exact ⟨_, rfl⟩
  · split <;> exact ⟨_, rfl⟩

/-- ★ a node other than `s` is a possible descendant of `s` exactly when `all_semi_directed_paths(G, s, v)`
    (default cutoff) yields something -/
theorem mem_possibleDescendants_iff_paths {G : MG} (hw : WF G) {s : Nat} (hs : s ∈ G.nodes) {v : Nat} (hvs : v ≠ s) :
    v ∈ possibleDescendants G s ↔ ∃ l p, allSemiDirectedPaths G s [v] none = some l ∧ p ∈ l := by
  have hsT : s ∉ [v] := by simpa using Ne.symm hvs
  rw [mem_possibleDescendants hw hs]
  constructor
  · rintro (h | ⟨p, hsd, hh, hl⟩)
    · exact absurd h hvs
    · obtain ⟨l, hl'⟩ := allSemiDirectedPaths_isSome hs [v] none
      refine ⟨l, p, hl', (mem_allSemiDirectedPaths hs hsT hl' p).mpr ((wanted_none_iff p).mpr
        ⟨hsd, hh, ⟨v, by simp, hl⟩, ?_⟩)⟩
      match p, hh, hl with
      | [a], hh, hl =>
        simp only [List.head?_cons, Option.some.injEq] at hh
        simp only [List.getLast?_singleton, Option.some.injEq] at hl
        exact absurd (hl.symm.trans hh) hvs
      | _ :: _ :: _, _, _ => simp
  · rintro ⟨l, p, hl, hp⟩
    obtain ⟨hsd, hh, ⟨t, ht, hlast⟩, -⟩ := (mem_allSemiDirectedPaths hs hsT hl p).mp hp
    simp only [List.mem_singleton] at ht
    subst ht
    exact Or.inr ⟨p, hsd, hh, hlast⟩

/-- ★ dually for possible ancestors: `v` is a possible ancestor of `s` iff `all_semi_directed_paths(G, v, s)`
    yields something -/
theorem mem_possibleAncestors_iff_paths {G : MG} (hw : WF G) {s : Nat} (hs : s ∈ G.nodes) {v : Nat} (hvs : v ≠ s)
    (hv : v ∈ G.nodes) :
    v ∈ possibleAncestors G s ↔ ∃ l p, allSemiDirectedPaths G v [s] none = some l ∧ p ∈ l := by
  have hsT : v ∉ [s] := by simpa using hvs
  rw [mem_possibleAncestors hw hs]
  constructor
  · rintro (h | ⟨p, hsd, hh, hl⟩)
    · exact absurd h hvs
    · obtain ⟨l, hl'⟩ := allSemiDirectedPaths_isSome hv [s] none
      refine ⟨l, p, hl', (mem_allSemiDirectedPaths hv hsT hl' p).mpr ((wanted_none_iff p).mpr
        ⟨hsd, hh, ⟨s, by simp, hl⟩, ?_⟩)⟩
      match p, hh, hl with
      | [a], hh, hl =>
        simp only [List.head?_cons, Option.some.injEq] at hh
        simp only [List.getLast?_singleton, Option.some.injEq] at hl
        exact absurd (hh.symm.trans hl) hvs
      | _ :: _ :: _, _, _ => simp
  · rintro ⟨l, p, hl, hp⟩
    obtain ⟨hsd, hh, ⟨t, ht, hlast⟩, -⟩ := (mem_allSemiDirectedPaths hv hsT hl p).mp hp
    simp only [List.mem_singleton] at ht
    subst ht
    exact Or.inr ⟨p, hsd, hh, hlast⟩

end C16
