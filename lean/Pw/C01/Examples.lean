import Pw.T5.Main
import Pw.T8.Main
open Closure MG

/-! # Non-vacuity: the hypotheses of the main theorems are met by concrete, non-trivial graphs -/
namespace MG

/-- list-level (decidable) form of "no self loops" -/
theorem noSelfLoop_of_lists (G : MG) (hd : ∀ e ∈ G.dir, e.1 ≠ e.2) (hb : ∀ e ∈ G.bi, e.1 ≠ e.2)
    (hu : ∀ e ∈ G.un, e.1 ≠ e.2) : NoSelfLoop G := by
  intro a ma mb he
  rcases he with ⟨_, _, h⟩ | ⟨_, _, h⟩ | ⟨_, _, h | h⟩ | ⟨_, _, h | h⟩
  · exact hd _ h rfl
  · exact hd _ h rfl
  · exact hb _ h rfl
  · exact hb _ h rfl
  · exact hu _ h rfl
  · exact hu _ h rfl

/-- a 5-node ADMG with a bow (1 -> 2 and 1 <-> 2), a collider 0 -> 2 <- 3 and a descendant 4 of it -/
def exG : MG := { nodes := [0, 1, 2, 3, 4], dir := [(0, 2), (1, 2), (3, 2), (2, 4)], bi := [(1, 2), (0, 3)] }

theorem exG_wf : exG.WF := by unfold WF exG; decide
theorem exG_nsl : NoSelfLoop exG := noSelfLoop_of_lists exG (by decide) (by decide) (by decide)
theorem exG_nuh : NoUndirAtHead exG := noUndirAtHead_of_un_nil exG rfl

/-- C01 instantiated on a concrete query (conditioning on the descendant 4 of the collider 2); the
    worklist closure is defined by well-founded recursion, so concrete *values* are obtained with
    `#eval` / the driver, not by kernel reduction -/
example (b : Bool) : mSeparatedE exG [1] [3] [4] = .ok b ↔ (Acyclic exG ∧ (b = true ↔ MSep exG [1] [3] [4])) :=
  mSeparatedE_spec exG exG_wf exG_nuh exG_nsl [1] [3] [4] (by decide) (by decide) (by decide) b

/-- T2 instantiated: the query above is decided by a vertex cut in the moral graph -/
example : MSep exG [1] [3] [] ↔ ¬ ∃ x ∈ [1], ∃ y ∈ [3], HConn exG (AntSet exG [1] [3] []) [] x y :=
  mSep_iff_moral_cut exG exG_wf exG_nuh exG_nsl [1] [3] [] (by decide) (by decide) (by decide)

/-- T5a instantiated (L = {0}, S = {4}) -/
example : C06.HasInducingPath exG [0] [4] 1 3 ↔
    ∀ Z : List Nat, (∀ z ∈ Z, z ∈ exG.nodes ∧ z ∉ [0] ∧ z ∉ [4] ∧ z ≠ 1 ∧ z ≠ 3) →
      ¬ MSep exG [1] [3] (Z ++ [4]) :=
  T5.inducing_iff_inseparable exG_wf rfl exG_nsl (by decide) (by decide) (by decide) (by decide)
    (by decide) (by decide) (by decide)

end MG

namespace C19
/-- two adjacent 2-cycles 0 <-> 1 (directed both ways), 2 <-> 3, joined by 1 -> 2, plus 0 <-> 3 bidirected -/
def exC : MG := { nodes := [0, 1, 2, 3], dir := [(0, 1), (1, 0), (2, 3), (3, 2), (1, 2)], bi := [(0, 3)] }

theorem exC_dom : Dom exC where
  wf := by unfold MG.WF exC; decide
  nodup := by decide
  noloopD := by intro a h; simp [exC] at h; omega
  noloopB := by intro a h; simp [exC] at h; omega

end C19
