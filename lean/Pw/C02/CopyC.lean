import Pw.C02.CopyB

/-! # C02: `copy` – part C: the model's copy as a run of steps; `abs (copy g) = abs g` -/
namespace C02
namespace MEG

/-- default kinds of the edge types an ADMG pre-creates: the hypothesis under which `copy()` of an
    ADMG keeps the kinds (the quantifier of C02 uses the default names with their default kinds) -/
def KindOK (g : MEG) : Prop :=
  g.admg = true → ∀ t L, g.layer? t = some L →
    (t = 0 → L.kind = .dir) ∧ (t = 1 → L.kind = .und) ∧ (t = 2 → L.kind = .und)

def skel0 (g : MEG) : MEG :=
  { MEG.fresh g.admg with layers := (MEG.fresh g.admg).layers.filter fun p => g.names.contains p.1 }

theorem build_empty (k : Kind) : Layer.build k [] [] = { kind := k } := rfl

theorem skeleton_eq (g : MEG) :
    g.skeleton = (g.layers.map fun p => GOp.addEdgeType p.1 p.2.kind [] []).foldl (fun G op => (G.step op).1) g.skel0 := by
  unfold skeleton
  rw [List.foldl_map]
  show List.foldl _ g.skel0 g.layers = _
  congr 1
  funext G p
  simp only [MEG.step, build_empty, addEdgeType]
  split <;> rfl

theorem skel0_inv (g : MEG) : g.skel0.Inv := by
  have hf := Inv.fresh g.admg
  refine ⟨hf.nodup, ?_, fun p hp => hf.sync p (List.mem_filter.1 hp).1, fun p hp => hf.wf p (List.mem_filter.1 hp).1⟩
  show (List.map (·.1) (List.filter (fun p => g.names.contains p.1) (MEG.fresh g.admg).layers)).Nodup
  rw [filter_ids _ (fun t => g.names.contains t)]
  exact hf.names.filter _

theorem skel0_abs (g : MEG) :
    g.skel0.abs.Blank ∧ g.skel0.abs.admg = g.admg ∧ g.skel0.abs.gattr = AAttr.empty ∧
    ∀ t, g.skel0.abs.kind t = if g.names.contains t then (AG.empty g.admg).kind t else none := by
  have hfr := abs_fresh g.admg
  have hl : ∀ t, g.skel0.layer? t = if g.names.contains t then (MEG.fresh g.admg).layer? t else none := by
    intro t; exact lookup_filter_key _ (fun t => g.names.contains t) t
  have hnodes : g.skel0.nodes = [] := by unfold skel0 MEG.fresh; split <;> rfl
  have hempty : ∀ t L, (MEG.fresh g.admg).layer? t = some L → L.edges = [] := by
    intro t L h
    have := mem_of_lookup h
    unfold MEG.fresh at this; split at this
    · simp at this; rcases this with ⟨_, rfl⟩ | ⟨_, rfl⟩ | ⟨_, rfl⟩ <;> rfl
    · simp at this
  refine ⟨⟨?_, ?_, ?_, ?_⟩, ?_, ?_, ?_⟩
  · funext x; simp [abs, hasNode, nodeIds, hnodes]
  · funext t x y
    simp only [abs, hl]
    by_cases hc : g.names.contains t = true
    · simp only [hc, ite_true]
      rcases Option.eq_none_or_eq_some ((MEG.fresh g.admg).layer? t) with h | ⟨L, h⟩
      · simp [h]
      · simp [h, Layer.has, hempty t L h]
    · have hc' : g.names.contains t = false := by simpa using hc
      simp only [hc', Bool.false_eq_true, ite_false]
  · funext x; simp [abs, hnodes]
  · funext t x y
    simp only [abs, hl]
    by_cases hc : g.names.contains t = true
    · simp only [hc, ite_true]
      rcases Option.eq_none_or_eq_some ((MEG.fresh g.admg).layer? t) with h | ⟨L, h⟩
      · simp [h]
      · simp [h, Layer.find, hempty t L h]
    · have hc' : g.names.contains t = false := by simpa using hc
      simp only [hc', Bool.false_eq_true, ite_false]
  · unfold skel0 MEG.fresh; split <;> simp_all [abs]
  · have : g.skel0.gattr = [] := by unfold skel0 MEG.fresh; split <;> rfl
    funext k; simp [abs, this, attrOf, Attr.get, AAttr.empty]
  · intro t
    have h2 : (AG.empty g.admg).kind t = ((MEG.fresh g.admg).layer? t).map (·.kind) := by
      rw [← hfr]; rfl
    simp only [abs, hl, h2]
    split <;> rfl

/-- the abstract state of `skeleton`: no nodes, no edges, the graph's edge types with their kinds -/
theorem skeleton_abs {g : MEG} (hk : g.KindOK) :
    g.skeleton.abs.Blank ∧ g.skeleton.abs.admg = g.admg ∧ g.skeleton.abs.gattr = AAttr.empty ∧
    g.skeleton.abs.kind = g.abs.kind ∧ g.skeleton.Inv := by
  obtain ⟨hb, ha, hg, hkind⟩ := skel0_abs g
  obtain ⟨habs, hinv⟩ := abs_foldl_step (g.layers.map fun p => GOp.addEdgeType p.1 p.2.kind [] []) (skel0_inv g)
  rw [← skeleton_eq, List.foldl_map] at habs
  rw [← skeleton_eq] at hinv
  obtain ⟨c1, c2, c3, c4⟩ := AG.foldl_addType_empty g.layers g.skel0.abs hb
  rw [← habs] at c1 c2 c3 c4
  refine ⟨c1, c2.trans ha, c3.trans hg, ?_, hinv⟩
  funext t
  rw [c4 t, hkind t]
  have hgk : g.abs.kind t = (List.lookup t g.layers).map (·.kind) := rfl
  rw [hgk]
  by_cases hc : g.names.contains t = true
  · simp only [hc, ite_true]
    -- the pre-created kind agrees with the graph's kind by `KindOK`
    have hsome : (List.lookup t g.layers).isSome = true := by rw [lookup_isSome_iff]; exact hc
    obtain ⟨L, hL⟩ := Option.isSome_iff_exists.1 hsome
    cases hadmg : g.admg
    · simp [AG.empty, hL]
    · have := hk hadmg t L hL
      simp only [AG.empty, ite_true, hL, Option.map_some]
      by_cases h0 : t = 0
      · simp [h0, this.1 h0]
      · by_cases h1 : t = 1
        · simp [h1, this.2.1 h1]
        · by_cases h2 : t = 2
          · simp [h2, this.2.2 h2]
          · simp [h0, h1, h2]
  · have hc' : g.names.contains t = false := by simpa using hc
    simp only [hc', Bool.false_eq_true, ite_false]

end MEG
end C02
