"""C18: FCI path searches `uncovered_pd_path` and `discriminating_path` (pywhy_graphs/algorithms/pag.py).

Per case the real code is run on a PAG built from the encoded graph; one request to the compiled Lean
driver returns (m) the literal BFS model's answer for the *same* neighbour iteration order the
implementation used, (ex) the brute-force decider of the specification over all simple paths, (v) the
validation of the implementation's returned path against the specification.

  found=True  and v != T                       -> violation (returned list is not such a path)
  found=True  and ex = F                       -> violation (cannot happen when v = T)
  found=False and ex = T, model also not-found -> known finding `C18-updp-global-explored` (uncovered_pd_path only)
  found=False and ex = T otherwise             -> violation (a path exists)
  found agrees with ex but differs from m      -> correspondence break (model != code)
Witness paths are never compared with the model's path."""
import hashlib
import itertools
import json
import os
import random

from . import common as C

PID = "C18"
KINDS = C.PAG_STATES  # none, ->, <-, <->, --, o-o, o->, <-o
KF_ID = "C18-updp-global-explored"
KF_DISC = "C18-disc-a-possible-parent"
KF_WHAT = {KF_ID: "uncovered_pd_path misses a path when candidate paths cross (one global explored set)",
           KF_DISC: "discriminating_path accepts a o-> c: a is only tested with has_edge(a, c, directed)"}


# ----------------------------------------------------------------------------- implementation side
def build(g, lab):
    from pywhy_graphs import PAG
    G = PAG()
    for v in C.g_nodes(g):
        G.add_node(lab(v))
    for k, nm in (("D", "directed"), ("B", "bidirected"), ("U", "undirected"), ("C", "circle")):
        for a, b in g.get(k, []):
            G.add_edge(lab(a), lab(b), edge_type=nm)
    return G


def orders(G, g, lab):
    """iteration orders the implementation will see: neighbours (a python set) and the bidirected
    layer's adjacency, as index pairs"""
    O, BO = [], []
    bg = G.sub_bidirected_graph()
    for v in C.g_nodes(g):
        for w in G.neighbors(lab(v)):
            O.append((v, lab.inv(w)))
        if lab(v) in bg:
            for w in bg.neighbors(lab(v)):
                BO.append((v, lab.inv(w)))
    return O, BO


def call_impl(G, q, lab, fresh=False):
    from pywhy_graphs.algorithms import discriminating_path, uncovered_pd_path
    L = lab.fresh if fresh else lab
    try:
        if q["fn"] == "updp":
            kw = {}
            for k in ("first", "second", "forbid"):
                if q.get(k) is not None:
                    kw[k + "_node"] = L(q[k])
            path, found = uncovered_pd_path(G, L(q["u"]), L(q["c"]), None, force_circle=bool(q.get("fc")), **kw)
        else:
            found, path, _ = discriminating_path(G, L(q["u"]), L(q["a"]), L(q["c"]), None)
        if found is not True and found is not False:
            return {"err": "bad-found:" + repr(found)}
        return {"found": bool(found), "path": [lab.inv(x) for x in path]}
    except Exception as e:  # noqa
        return {"err": type(e).__name__}


def lean_line(g, q, O=None, BO=None, path=None):
    s = q["fn"] + " " + C.g_line(g)
    if O is not None:
        s += " O=" + C.fmt_pairs(O)
    if q["fn"] == "updp":
        s += " u=%d c=%d fc=%d" % (q["u"], q["c"], 1 if q.get("fc") else 0)
        for k in ("first", "second", "forbid"):
            if q.get(k) is not None:
                s += " %s=%d" % (k, q[k])
    else:
        if BO is not None:
            s += " BO=" + C.fmt_pairs(BO)
        s += " u=%d a=%d c=%d" % (q["u"], q["a"], q["c"])
    if path is not None:
        s += " p=" + "-".join(map(str, path))
    return s


def parse_answer(ans):
    d = dict(tok.split("=", 1) for tok in ans.split(" "))
    m, _, mp = d["m"].partition(":") if not d["m"].startswith("err") else (d["m"], "", "")
    return {"m": m, "mpath": mp, "ex": d["ex"], "v": d["v"], "w": d.get("w", "-")}


def classify(q, got, L):
    """-> (kind, detail) with kind in None | 'violation:<what>' | 'known' | 'corr'"""
    if "err" in got:
        return "violation:raised", "implementation raised %s (model: %s)" % (got["err"], L["m"])
    f = "T" if got["found"] else "F"
    if got["found"]:
        if L["v"] != "T" and q["fn"] == "disc" and L["w"] == "T" and L["m"] == "T":
            return "known:" + KF_DISC, ("found=True, the returned list %s is a discriminating path except that a o-> c "
                                        "(a is not a definite parent of c); the model of the code reproduces it" % got["path"])
        if L["v"] != "T":
            return "violation:invalid-path", "found=True but the returned list %s is not a valid path (spec validation=%s, path exists=%s)" % (
                got["path"], L["v"], L["ex"])
        if L["ex"] != "T":
            return "violation:decider", "found=True, validated, but the decider finds no path (decider broken?)"
    else:
        if L["ex"] == "T":
            if q["fn"] == "updp" and L["m"] == "F":
                return "known:" + KF_ID, "found=False although a path exists; the literal global-explored BFS model also misses it"
            return "violation:missed-path", "found=False although the decider finds a path (model says %s)" % L["m"]
    if L["m"] != f:
        return "corr", "implementation found=%s, model found=%s (spec decider=%s)" % (f, L["m"], L["ex"])
    return None, ""


def eval_case(case, drv=None):
    """full evaluation of one self-contained case dict (used by shrinking / replay / corpus)"""
    g = case["g"]
    lab = C.Labels(case.get("fam", "int"))
    G = build(g, lab)
    O, BO = orders(G, g, lab)
    got = call_impl(G, case, lab, fresh=bool(case.get("fresh")))
    line = lean_line(g, case, O, BO, got.get("path") if got.get("found") else None)
    ans = drv.ask(line) if drv else C.lean_batch([line], jobs=1)[0]
    L = parse_answer(ans)
    kind, detail = classify(case, got, L)
    return {"kind": kind, "detail": detail, "impl": got, "lean": L, "lean_request": line}


# ----------------------------------------------------------------------------- query enumeration
def updp_queries(n, pairs, rng=None, k=None):
    """all option combinations for the given (u,c) pairs; with rng/k: the two plain queries plus k
    sampled combinations per pair"""
    out = []
    for u, c in pairs:
        fs = [(None, None)] + [(f, None) for f in range(n) if f not in (u, c)] + \
             [(None, s) for s in range(n) if s != u]
        combos = [(f, s, fb, fc) for (f, s) in fs for fb in [None] + list(range(n)) for fc in (0, 1)]
        if rng is not None and k is not None and len(combos) > k + 2:
            combos = combos[:2] + rng.sample(combos[2:], k)
        for f, s, fb, fc in combos:
            out.append({"fn": "updp", "u": u, "c": c, "first": f, "second": s, "forbid": fb, "fc": fc})
    return out


def disc_queries(n, triples):
    return [{"fn": "disc", "u": u, "a": a, "c": c} for u, a, c in triples]


def graph_from_index(n, idx):
    prs = C.all_pairs(n)
    g = C.g_new(n)
    for (a, b) in prs:
        idx, r = divmod(idx, len(KINDS))
        C.add_pair_state(g, a, b, KINDS[r])
    return g


def rand_pag(rng, n, mode):
    """structured random PAGs over the 8 pair kinds"""
    g = C.g_new(n)
    if mode == "pd":      # many potentially directed edges, sparse enough for unshielded triples
        w = [0, 5, 5, 1, 1, 5, 4, 4]
        dens = rng.choice((0.35, 0.5, 0.65))
        for a, b in C.all_pairs(n):
            if rng.random() < dens:
                C.add_pair_state(g, a, b, rng.choices(KINDS, weights=w)[0])
    elif mode == "circ":  # circle component with a few arrows
        w = [0, 1, 1, 1, 1, 8, 3, 3]
        dens = rng.choice((0.4, 0.6))
        for a, b in C.all_pairs(n):
            if rng.random() < dens:
                C.add_pair_state(g, a, b, rng.choices(KINDS, weights=w)[0])
    elif mode == "disc":  # node c with many parents, bidirected chains among them
        c = rng.randrange(n)
        for a, b in C.all_pairs(n):
            if c in (a, b):
                x = b if a == c else a
                r = rng.random()
                if r < 0.55:
                    g["D"].append([x, c])
                elif r < 0.7:
                    g["D"].append([x, c]); g["C"].append([c, x])       # x o-> c
                elif r < 0.8:
                    C.add_pair_state(g, a, b, rng.choice(KINDS[1:]))
            elif rng.random() < 0.6:
                C.add_pair_state(g, a, b, rng.choices(KINDS, weights=[0, 3, 3, 8, 1, 2, 3, 3])[0])
    elif mode == "disc2":  # planted (near-)discriminating path v *-> w_k <-> .. <-> w_1 = a <-* u, all w_i -> c, plus noise
        perm = list(range(n))
        rng.shuffle(perm)
        c, u, v = perm[0], perm[1], perm[2]
        ws = perm[3:3 + rng.randint(1, n - 3)]
        st = {}

        def put(x, y, kind):   # kind seen from x to y
            a, b = (x, y) if x < y else (y, x)
            if x > y:
                kind = {("D>",): ("D<",), ("D<",): ("D>",), ("D>", "C<"): ("D<", "C>"), ("D<", "C>"): ("D>", "C<")}.get(kind, kind)
            st[(a, b)] = kind
        for w in ws:
            put(w, c, ("D>",) if rng.random() < 0.85 else rng.choice([("D>", "C<"), ("B",), ("C>", "C<")]))
        for w1, w2 in zip(ws, ws[1:]):
            put(w1, w2, ("B",) if rng.random() < 0.85 else rng.choice([("D>",), ("D<",), ("D<", "C>")]))
        put(u, ws[0], rng.choice([("D>",), ("B",), ("D>", "C<"), ("D>",), ("C>", "C<")]))
        if rng.random() < 0.9:
            put(u, c, rng.choice(KINDS[1:]))
        put(v, ws[-1], rng.choice([("D>",), ("B",), ("D>", "C<"), ("C>", "C<"), ("D<", "C>")]))
        if rng.random() < 0.1:
            put(v, c, rng.choice(KINDS[1:]))
        for a, b in C.all_pairs(n):
            if (a, b) in st:
                C.add_pair_state(g, a, b, st[(a, b)])
            elif c not in (a, b) and rng.random() < 0.35:
                C.add_pair_state(g, a, b, rng.choices(KINDS, weights=[0, 2, 2, 6, 1, 2, 2, 2])[0])
            elif c in (a, b) and rng.random() < 0.25:
                x = b if a == c else a
                if x != v:
                    put(x, c, ("D>",))
                    C.add_pair_state(g, a, b, st[(a, b)])
    else:                 # uniform over the kinds
        dens = rng.choice((0.3, 0.5, 0.7, 0.9))
        for a, b in C.all_pairs(n):
            if rng.random() < dens:
                C.add_pair_state(g, a, b, rng.choice(KINDS[1:]))
    return g


# ----------------------------------------------------------------------------- worker
def nontrivial(q, L):
    return L["ex"] == "T" or L["m"] == "T"


def work(item):
    """item = {'graphs': [(g, fam, queries)], 'hash': bool} -> summary dict"""
    res = {"n": 0, "nt": 0, "hist": {}, "bad": [], "known": [], "nt_hashes": [], "samples": []}
    recs, lines = [], []
    if "exh4" in item:
        item = dict(item, graphs=exh4_graphs(*item["exh4"]))
    for g, fam, queries in item["graphs"]:
        lab = C.Labels(fam)
        G = build(g, lab)
        O, BO = orders(G, g, lab)
        for qi, q in enumerate(queries):
            if qi % 3 == 2:
                # query, edit the same object in place, query again (see common.warmup); the iteration orders
                # handed to the literal model are read again afterwards
                if C.warmup(G, lambda: call_impl(G, q, lab), layers=("circle", "directed", "bidirected"),
                            salt=qi * 31 + len(g.get("D", [])) * 7 + len(g.get("C", [])) * 3 + g["n"], marks=True):
                    O, BO = orders(G, g, lab)
            got = call_impl(G, q, lab, fresh=(fam != "int" and qi % 2 == 1))
            lines.append(lean_line(g, q, O, BO, got.get("path") if got.get("found") else None))
            recs.append((g, fam, q, got))
    answers = C.lean_batch(lines, jobs=1)
    h = res["hist"]

    def cnt(k):
        h[k] = h.get(k, 0) + 1
    for (g, fam, q, got), ans in zip(recs, answers):
        L = parse_answer(ans)
        kind, detail = classify(q, got, L)
        res["n"] += 1
        cnt("fn:" + q["fn"])
        cnt("%s:exists=%s" % (q["fn"], L["ex"]))
        cnt("n=%d" % g["n"])
        if q["fn"] == "updp":
            cnt("updp:opts=%s%s%s%s" % ("f" if q.get("first") is not None else "-", "s" if q.get("second") is not None else "-",
                                       "x" if q.get("forbid") is not None else "-", "c" if q.get("fc") else "-"))
        if nontrivial(q, L):
            res["nt"] += 1
            if item.get("hash"):
                res["nt_hashes"].append(hashlib.sha1(json.dumps([g, q], sort_keys=True).encode()).hexdigest()[:16])
            if len(res["samples"]) < 2:
                res["samples"].append(dict(q, g=g, fam=fam))
        if kind and kind.startswith("known:"):
            cnt("known-finding-hit:" + kind[6:])
            if sum(1 for k in res["known"] if k[0] == kind[6:]) < 2:
                res["known"].append((kind[6:], dict(q, g=g, fam=fam), detail))
        elif kind:
            cnt("bad:" + kind.split(":")[0])
            if len(res["bad"]) < 5:
                res["bad"].append((kind, dict(q, g=g, fam=fam), detail, got, L))
    return res


class _Count:
    """stands in for Evidence.nontrivial (a set): exhaustive streams are distinct by construction and
    are only counted; random streams contribute real hashes"""

    def __init__(self):
        self.k = 0
        self.hashes = set()

    def add(self, x):
        self.hashes.add(x)

    def __len__(self):
        return self.k + len(self.hashes)


def chunked(items, size):
    items = list(items)
    return [items[i:i + size] for i in range(0, len(items), size)]


# ----------------------------------------------------------------------------- streams
def stream_exhaustive(tier):
    """work items for the exhaustive part"""
    items = []
    for n in (2, 3):
        gs = []
        for idx in range(len(KINDS) ** len(C.all_pairs(n))):
            g = graph_from_index(n, idx)
            qs = updp_queries(n, list(itertools.permutations(range(n), 2)))
            qs += disc_queries(n, list(itertools.product(range(n), repeat=3)))
            gs.append((g, "int", qs))
        items += [{"graphs": ch} for ch in chunked(gs, 16)]
    if tier == "thorough":
        total = len(KINDS) ** 6
        items += [{"exh4": (lo, min(lo + 256, total))} for lo in range(0, total, 256)]   # expanded in the worker
    return items


def exh4_graphs(lo, hi):
    n = 4
    gs = []
    for idx in range(lo, hi):
        g = graph_from_index(n, idx)
        # every labelled graph is enumerated, so fixing (u,c)=(0,1) and (u,a,c)=(0,1,2) covers every
        # query up to renaming of the nodes
        qs = updp_queries(n, [(0, 1)]) + disc_queries(n, [(0, 1, 2)])
        if idx % 16 == 0:
            qs += updp_queries(n, [(3, 2), (2, 0)]) + disc_queries(n, [(3, 1, 0), (2, 3, 1), (1, 1, 0), (0, 1, 0)])
        gs.append((g, "int", qs))
    return gs


def stream_random(tier, rng):
    N = 480 if tier == "quick" else 9000
    fams = C.Labels.FAMILIES
    gs = []
    for i in range(N):
        n = rng.choice((4, 5, 5, 5, 6, 6))
        mode = ("pd", "circ", "disc", "disc2", "unif", "pd", "disc2", "disc2")[i % 8]
        g = rand_pag(rng, n, mode)
        if i % 3 == 0:
            g = C.shuffled_graph(rng, g)
        fam = fams[i % len(fams)] if i % 2 else "int"
        pairs = list(itertools.permutations(range(n), 2))
        trip = list(itertools.permutations(range(n), 3))
        if mode in ("disc", "disc2"):
            # triples that pass the entry tests (a -> c or a o-> c present, a adjacent to u) plus a sample of the others
            D = set(map(tuple, g["D"]))
            adjs = set((x, y) for k in C.LAYERS for x, y in g.get(k, [])) | set((y, x) for k in C.LAYERS for x, y in g.get(k, []))
            live = [t for t in trip if (t[1], t[2]) in D and (t[0], t[1]) in adjs]
            dead = [t for t in trip if t not in set(live)]
            qs = disc_queries(n, live + rng.sample(dead, min(len(dead), 12))) + updp_queries(n, rng.sample(pairs, 4), rng, 6)
        else:
            qs = updp_queries(n, pairs, rng, 10) + disc_queries(n, rng.sample(trip, min(len(trip), 30)))
        gs.append((g, fam, qs))
    return [{"graphs": ch, "hash": True} for ch in chunked(gs, 6)]


# ----------------------------------------------------------------------------- run / replay
def run_items(items, deadline, ev):
    """parallel evaluation in order (exhaustive part first); if the tier's deadline gets close the
    remaining (random) work items are dropped and the evidence says so"""
    import multiprocessing as mp
    import time
    jobs = min(16, os.cpu_count() or 1)
    done = 0
    with mp.get_context("fork").Pool(jobs) as pool:
        for res in pool.imap(work, items, chunksize=1):
            done += 1
            yield res
            if deadline and time.time() > deadline - 90:
                ev.extra["truncated"] = "deadline: %d of %d work items evaluated" % (done, len(items))
                pool.terminate()
                break


def still_bad(kind0):
    def f(case):
        drv = C.Driver()
        try:
            r = eval_case(case, drv)
        finally:
            drv.close()
        return r["kind"] == kind0
    return f


def shrink(case, kind0):
    fails = still_bad(kind0)
    cur = dict(case)
    for k in ("fam", "fresh"):
        if k in cur:
            c2 = {kk: vv for kk, vv in cur.items() if kk != k}
            try:
                if fails(c2):
                    cur = c2
            except Exception:
                pass
    for k in ("first", "second", "forbid"):
        if cur.get(k) is not None:
            c2 = dict(cur)
            c2[k] = None
            if fails(c2):
                cur = c2
    if cur.get("fc"):
        c2 = dict(cur, fc=0)
        if fails(c2):
            cur = c2
    if "N" in cur["g"]:
        c2 = dict(cur, g={k: v for k, v in cur["g"].items() if k != "N"})
        if fails(c2):
            cur = c2
    # graph shrinking stays inside the quantifier: whole pairs (all layer entries of a pair) are removed
    import copy
    from .shrink import _drop_node
    progress = True
    while progress:
        progress = False
        g = cur["g"]
        cands = []
        for a, b in sorted(set((min(x, y), max(x, y)) for k in C.LAYERS for x, y in g.get(k, []))):
            h = copy.deepcopy(g)
            for k in C.LAYERS:
                h[k] = [e for e in h.get(k, []) if set(e) != {a, b}]
            cands.append(dict(cur, g=h))
        for v in list(C.g_nodes(g)):
            c2 = _drop_node(cur, v, ("u", "a", "c", "first", "second", "forbid"))
            if c2 is not None:
                cands.append(c2)
        for c2 in cands:
            try:
                if fails(c2):
                    cur, progress = c2, True
                    break
            except Exception:
                continue
    return cur


def findings_of(ctx):
    fs = list(ctx.get("findings") or [])
    p = os.path.join(C.VERIF, "known_findings.d", PID + ".json")
    if not fs and os.path.exists(p):
        fs = [f for f in json.load(open(p))["findings"] if f["property"] == PID]
    return fs


def run(ctx):
    ev, out, tier, rng = ctx["ev"], ctx["out"], ctx["tier"], ctx["rng"]
    ev.rule = ("exhaustive: every PAG on 2-3 nodes over the pair kinds {none,->,<-,<->,--,o-o,o->,<-o} x every ordered (u,c) x "
               "every combination of first_node (not u, c) / second_node (not u) / forbid_node / force_circle, and every node "
               "triple (u,a,c) for discriminating_path; thorough adds every 4-node PAG (262144) with (u,c)=(0,1), (u,a,c)=(0,1,2) "
               "(all queries up to renaming) x all 60 option combinations. random: 5 label families, shuffled insertion order, "
               "n in 4..6, generators aimed at potentially-directed/circle paths with crossing candidates and at nodes with many "
               "parents joined by bidirected chains; all (u,c) pairs x 12 option combinations, all/30 triples. "
               "non-trivial = the Lean decider finds a path or the BFS model reports one (a positive case); negatives are counted in "
               "the histogram. Returned paths are validated by the Lean specification, existence is compared with the Lean decider.")
    ev.assumptions = ["at most one edge kind per node pair, no self loops (the property's quantifier)",
                      "first_node differs from u and c, second_node differs from u, not both given; max_path_length=None",
                      "forbid_node is read as in the docstring: the node directly after u",
                      "nodes are arguments present in the graph; label->index bijection in harness/common.py"]
    ev.nontrivial = _Count()
    findings = findings_of(ctx)
    kf_known = set(f["id"] for f in findings if f["status"] == "known")
    # (0) corpus first
    bad = []
    drv = C.Driver()
    try:
        # C18_NO_CORPUS=1 (self-tests of the generators only): skip the stored witnesses
        for case in ([] if os.environ.get("C18_NO_CORPUS") else C.load_corpus(PID)):
            r = eval_case(case, drv)
            ev.case(case, nontrivial=False)
            ev.count("src:corpus")
            if r["kind"] and r["kind"].startswith("known:"):
                fid = r["kind"][6:]
                if fid in kf_known:
                    out.known(fid, KF_WHAT[fid], case)
                else:
                    bad.append(("violation:unlisted-" + fid, case, r["detail"], r["impl"], r["lean"]))
            elif r["kind"]:
                bad.append((r["kind"], case, r["detail"], r["impl"], r["lean"]))
    finally:
        drv.close()
    items = stream_exhaustive(tier) + stream_random(tier, rng)
    for res in run_items(items, ctx.get("deadline"), ev):
        ev.evaluations += res["n"]
        ev.nontrivial.k += 0 if res["nt_hashes"] else res["nt"]
        for hsh in res["nt_hashes"]:
            ev.nontrivial.add(hsh)
        for k, v in res["hist"].items():
            ev.count(k, v)
        for s in res["samples"]:
            if len(ev.samples) < 12:
                ev.samples.append(s)
        for fid, case, detail in res["known"]:
            if fid in kf_known:
                out.known(fid, KF_WHAT[fid], case)
            else:
                bad.append(("violation:unlisted-" + fid, case, detail, None, None))
        bad += res["bad"]
    ev.exhaustive = False
    ev.extra["exhaustive_part"] = "PAGs on <=3 nodes x all queries (quick); plus all 4-node PAGs x canonical queries (thorough)"
    viol = [b for b in bad if b[0].startswith("violation")]
    corr = [b for b in bad if b[0] == "corr"]
    if viol:
        kind, case, detail, got, L = viol[0]
        r0 = eval_case(case)
        small = shrink(case, r0["kind"]) if r0["kind"] else case   # (an unlisted known-kind shrinks as 'known:<id>')
        r = eval_case(small)
        out.violation(small, {"kind": r["kind"], "detail": r["detail"] or detail, "impl": r["impl"], "lean": r["lean"],
                              "lean_request": r["lean_request"], "original_case": case, "disagreements_total": len(viol)})
    elif corr:
        kind, case, detail, got, L = corr[0]
        small = shrink(case, "corr")
        r = eval_case(small)
        out.corr(small, {"detail": r["detail"], "impl": r["impl"], "lean": r["lean"], "lean_request": r["lean_request"],
                         "count": len(corr)})


def replay(ctx, payload):
    case = payload.get("case") or payload.get("correspondence", {}).get("case")
    r = eval_case(case)
    print("implementation:", r["impl"], " lean:", r["lean"])
    print("classification:", r["kind"], r["detail"])
    findings = findings_of(ctx)
    if r["kind"] and r["kind"].startswith("known:") and any(
            f["id"] == r["kind"][6:] and f["status"] == "known" for f in findings):
        print("KNOWN-FINDING: property=C18 %s [%s]" % (KF_WHAT[r["kind"][6:]], r["kind"][6:]))
        return 0
    print("REPRODUCED" if r["kind"] else "NOT-REPRODUCED")
    return 1 if r["kind"] else 0


# ----------------------------------------------------------------------------- C15 adapter
def _triangle_free(g):
    adj = set()
    for k in "DBUC":
        for a, b in g.get(k, []):
            adj.add((a, b)); adj.add((b, a))
    n = g["n"]
    return not any((a, b) in adj and (b, c) in adj and (a, c) in adj
                   for a in range(n) for b in range(a + 1, n) for c in range(b + 1, n))


def c15_cases(rng, k):
    """cases inside C18's quantifier whose answer is fully determined by the property: discriminating_path
    queries outside the known finding (no circle at a on the edge a *-* c); uncovered_pd_path queries only
    where no path exists or the skeleton is triangle-free (there the search is complete - theorem
    uncovPdPath_complete_partial - so `found` does not depend on the iteration order of python sets).
    About half of the cases are positive (a path exists)."""
    cands = []
    for t in range(40 * k + 200):
        n = rng.choice((4, 5, 5, 6))
        mode = ("pd", "circ", "disc2", "disc", "disc2", "unif")[t % 6]
        g = rand_pag(rng, n, mode)
        if mode in ("disc", "disc2"):
            D = set(map(tuple, g["D"]))
            live = [(u, a, c) for u, a, c in itertools.permutations(range(n), 3)
                    if (a, c) in D and [c, a] not in g["C"]]
            if live:
                u, a, c = rng.choice(live)
                cands.append(dict(disc_queries(n, [(u, a, c)])[0], g=g))
        else:
            u, c = rng.sample(range(n), 2)
            q = rng.choice(updp_queries(n, [(u, c)]))
            cands.append(dict(q, g=g))
    ans = [parse_answer(a) for a in C.lean_batch([lean_line(c["g"], c) for c in cands])]
    pos, neg = [], []
    for c, a in zip(cands, ans):
        if c["fn"] == "updp" and a["ex"] == "T" and not _triangle_free(c["g"]):
            continue
        (pos if a["ex"] == "T" else neg).append(c)
    pos = pos[:(k + 1) // 2]
    return (pos + neg[:k - len(pos)])[:k]


_C15_DRV = None


def c15_eval(case, fam, order_seed):
    lab = C.Labels(fam)
    g = C.shuffled_graph(random.Random(order_seed), case["g"])
    try:
        G = build(g, lab)
    except Exception as e:  # noqa
        return "err:" + type(e).__name__
    got = call_impl(G, case, lab, fresh=True)
    if "err" in got:
        return "err:" + got["err"]
    if not got["found"]:
        return "none"
    global _C15_DRV
    if _C15_DRV is None:
        _C15_DRV = C.Driver()     # one persistent driver per (sub)process
    ans = parse_answer(_C15_DRV.ask(lean_line(case["g"], case, None, None, got["path"])))
    return "found:valid" if ans["v"] == "T" else "found:INVALID:path %s fails the Lean specification" % got["path"]


def c15_expected(cases):
    ans = C.lean_batch([lean_line(c["g"], c) for c in cases])
    return ["found:valid" if parse_answer(a)["ex"] == "T" else "none" for a in ans]
