import Pw.C12.Main
open Closure MG

/-! # C12: the brute-force path enumerator `ccDec` decides `ColliderConnected`

Not needed for the main theorems; it makes the *independent* oracle of the harness (`specEdges`, an
enumeration of all simple paths) a verified decider of the specification as well. -/
namespace C12

theorem mem_hopsFrom {G : MG} {a : Nat} {h : Hop} :
    h ∈ hopsFrom G a ↔ HasEdge G a h.nx h.mp h.mn := by
  obtain ⟨mp, mn, nx⟩ := h
  simp only [hopsFrom, List.mem_append, List.mem_map, mem_children, mem_parents, spouses, unbrs, mem_sym,
    Hop.mk.injEq, HasEdge]
  constructor
  · rintro (((⟨b, hb, rfl, rfl, rfl⟩ | ⟨b, hb, rfl, rfl, rfl⟩) | ⟨b, hb, rfl, rfl, rfl⟩) | ⟨b, hb, rfl, rfl, rfl⟩)
    · exact Or.inl ⟨rfl, rfl, hb⟩
    · exact Or.inr (Or.inl ⟨rfl, rfl, hb⟩)
    · exact Or.inr (Or.inr (Or.inl ⟨rfl, rfl, hb⟩))
    · exact Or.inr (Or.inr (Or.inr ⟨rfl, rfl, hb⟩))
  · rintro (⟨rfl, rfl, h⟩ | ⟨rfl, rfl, h⟩ | ⟨rfl, rfl, h⟩ | ⟨rfl, rfl, h⟩)
    · exact Or.inl (Or.inl (Or.inl ⟨nx, h, rfl, rfl, rfl⟩))
    · exact Or.inl (Or.inl (Or.inr ⟨nx, h, rfl, rfl, rfl⟩))
    · exact Or.inl (Or.inr ⟨nx, h, rfl, rfl, rfl⟩)
    · exact Or.inr ⟨nx, h, rfl, rfl, rfl⟩

/-- the enumeration: exactly the valid hop lists of length ≤ fuel whose nodes are new and distinct -/
theorem mem_pathsFrom {G : MG} : ∀ (f : Nat) (vis : List Nat) (a : Nat) (hs : List Hop),
    hs ∈ pathsFrom G f vis a ↔
      (ValidW G a hs ∧ hs.length ≤ f ∧ (hs.map (·.nx)).Nodup ∧ ∀ n ∈ hs.map (·.nx), n ∉ vis)
  | 0, vis, a, hs => by
    simp only [pathsFrom, List.mem_singleton, Nat.le_zero, List.length_eq_zero_iff]
    constructor
    · rintro rfl; simp [ValidW]
    · rintro ⟨_, h, _⟩; exact h
  | f + 1, vis, a, hs => by
    simp only [pathsFrom, List.mem_cons, List.mem_flatMap]
    constructor
    · rintro (rfl | ⟨h, hh, hmem⟩)
      · simp [ValidW]
      · split at hmem
        · cases hmem
        · rename_i hvis
          obtain ⟨t, ht, rfl⟩ := List.mem_map.mp hmem
          obtain ⟨hv, hl, hn, hnv⟩ := (mem_pathsFrom f (h.nx :: vis) h.nx t).mp ht
          refine ⟨⟨mem_hopsFrom.mp hh, hv⟩, by simp; omega, ?_, ?_⟩
          · simp only [List.map_cons, List.nodup_cons]
            exact ⟨fun hm => hnv _ hm List.mem_cons_self, hn⟩
          · intro n hn'
            simp only [List.map_cons, List.mem_cons] at hn'
            rcases hn' with rfl | hn'
            · exact hvis
            · exact fun hv' => hnv n hn' (List.mem_cons_of_mem _ hv')
    · rintro ⟨hv, hl, hn, hnv⟩
      cases hs with
      | nil => exact Or.inl rfl
      | cons h t =>
        right
        simp only [List.map_cons, List.nodup_cons, List.mem_cons, forall_eq_or_imp] at hn hnv
        refine ⟨h, mem_hopsFrom.mpr hv.1, ?_⟩
        rw [if_neg hnv.1]
        refine List.mem_map.mpr ⟨t, ?_, rfl⟩
        refine (mem_pathsFrom f (h.nx :: vis) h.nx t).mpr ⟨hv.2, by simp at hl; omega, hn.2, ?_⟩
        intro n hn' hv'
        rcases List.mem_cons.mp hv' with rfl | hv'
        · exact hn.1 hn'
        · exact hnv.2 n hn' hv'

theorem allCollB_iff : ∀ hs : List Hop, allCollB hs = true ↔ AllColl hs
  | [] => by simp [allCollB, AllColl]
  | [_] => by simp [allCollB, AllColl]
  | h1 :: h2 :: t => by
    simp only [allCollB, AllColl, Bool.and_eq_true, decide_eq_true_eq, allCollB_iff (h2 :: t), and_assoc]

theorem adjB_iff {G : MG} {u v : Nat} : adjB G u v = true ↔ Adj G u v := by
  unfold adjB Adj HasEdge
  simp only [Bool.or_eq_true, decide_eq_true_eq, mem_children, mem_parents, spouses, unbrs, mem_sym]
  constructor
  · rintro (((h | h) | h) | h)
    · exact ⟨.tail, .head, Or.inl ⟨rfl, rfl, h⟩⟩
    · exact ⟨.head, .tail, Or.inr (Or.inl ⟨rfl, rfl, h⟩)⟩
    · exact ⟨.head, .head, Or.inr (Or.inr (Or.inl ⟨rfl, rfl, h⟩))⟩
    · exact ⟨.tail, .tail, Or.inr (Or.inr (Or.inr ⟨rfl, rfl, h⟩))⟩
  · rintro ⟨mu, mv, ⟨_, _, h⟩ | ⟨_, _, h⟩ | ⟨_, _, h⟩ | ⟨_, _, h⟩⟩
    · exact Or.inl (Or.inl (Or.inl h))
    · exact Or.inl (Or.inl (Or.inr h))
    · exact Or.inl (Or.inr h)
    · exact Or.inr h

/-- pigeonhole: a duplicate-free list inside `L` is no longer than `L` -/
theorem nodup_length_le : ∀ (l L : List Nat), l.Nodup → (∀ a ∈ l, a ∈ L) → l.length ≤ L.length
  | [], _, _, _ => by simp
  | a :: l, L, hn, hsub => by
    have haL : a ∈ L := hsub a List.mem_cons_self
    have hn' := List.nodup_cons.mp hn
    have : l.length ≤ (L.erase a).length := by
      apply nodup_length_le l (L.erase a) hn'.2
      intro b hb
      exact (List.mem_erase_of_ne (fun e : b = a => hn'.1 (e ▸ hb))).mpr (hsub b (List.mem_cons_of_mem _ hb))
    rw [List.length_erase_of_mem haL] at this
    have hpos : 0 < L.length := List.length_pos_of_mem haL
    simp only [List.length_cons]
    omega

theorem walk_nodes_mem {G : MG} (hwf : G.WF) : ∀ (hs : List Hop) (u : Nat), hs ≠ [] → ValidW G u hs →
    ∀ w ∈ nodesOf u hs, w ∈ G.nodes
  | [], _, hne, _, _, _ => absurd rfl hne
  | [h], u, _, hv, w, hw => by
    simp only [nodesOf, List.map_cons, List.map_nil, List.mem_cons, List.not_mem_nil, or_false] at hw
    rcases hw with rfl | rfl
    · exact HasEdge.mem_nodes hwf hv.1.symm
    · exact HasEdge.mem_nodes hwf hv.1
  | h :: h2 :: t, u, _, hv, w, hw => by
    simp only [nodesOf, List.map_cons, List.mem_cons] at hw
    rcases hw with rfl | hw
    · exact HasEdge.mem_nodes hwf hv.1.symm
    · exact walk_nodes_mem hwf (h2 :: t) h.nx (by simp) hv.2 w (by simpa [nodesOf] using hw)

/-- **the brute-force decider is the specification** -/
theorem ccDec_iff (G : MG) (hwf : G.WF) (u v : Nat) : ccDec G u v = true ↔ ColliderConnected G u v := by
  unfold ccDec ColliderConnected
  rw [Bool.or_eq_true, adjB_iff, List.any_eq_true]
  constructor
  · rintro (h | ⟨hs, hmem, hcond⟩)
    · exact Or.inl h
    · simp only [Bool.and_eq_true, Bool.not_eq_true', decide_eq_true_eq, allCollB_iff] at hcond
      obtain ⟨hv, _, hn, hnv⟩ := (mem_pathsFrom _ _ _ _).mp hmem
      refine Or.inr ⟨hs, ?_, hv, hcond.1.2, ?_, hcond.2⟩
      · intro h; rw [h] at hcond; simp at hcond
      · simp only [nodesOf, List.nodup_cons]
        exact ⟨fun hm => hnv u hm (by simp), hn⟩
  · rintro (h | ⟨hs, hne, hv, hend, hnd, hc⟩)
    · exact Or.inl h
    · right
      refine ⟨hs, (mem_pathsFrom _ _ _ _).mpr ⟨hv, ?_, ?_, ?_⟩, ?_⟩
      · have := nodup_length_le (nodesOf u hs) G.nodes hnd (walk_nodes_mem hwf hs u hne hv)
        simp only [nodesOf, List.length_cons, List.length_map] at this
        omega
      · simp only [nodesOf, List.nodup_cons] at hnd; exact hnd.2
      · simp only [nodesOf, List.nodup_cons] at hnd
        intro n hn hnu
        simp only [List.mem_singleton] at hnu
        subst hnu
        exact hnd.1 hn
      · simp only [Bool.and_eq_true, Bool.not_eq_true', decide_eq_true_eq, allCollB_iff]
        refine ⟨⟨?_, hend⟩, hc⟩
        cases hs with
        | nil => exact absurd rfl hne
        | cons _ _ => rfl

end C12
