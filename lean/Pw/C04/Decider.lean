import Pw.C04.Cond
import Pw.C05.Decider

/-! # C04: the enumerating decider used as run-time oracle is the specification

`essentialDec_spec`: for every DAG, `essentialDec D` (all acyclic orientations of the skeleton with
D's v-structures; an edge is directed iff it has the same orientation in all of them) is the essential
graph of the spec.  `meqDec_iff`: the Markov-equivalence check used for the round trips. -/
namespace C04
open C05 (Adj VStruct orientations orientLike mem_vstructs subsetB_iff adjB'_iff map_mem_orientations
  mem_of_mem_orientation orientation_covers acyclic_congr no_two_cycle)

theorem sameVB_iff {D D' : MG} : sameVB D D' = true ↔ ∀ a c b, VStruct D a c b ↔ VStruct D' a c b := by
  simp only [sameVB, Bool.and_eq_true, subsetB_iff]
  constructor
  · rintro ⟨h1, h2⟩ a c b
    exact ⟨fun h => mem_vstructs.mp (h1 _ (mem_vstructs.mpr h)), fun h => mem_vstructs.mp (h2 _ (mem_vstructs.mpr h))⟩
  · intro h
    exact ⟨fun ⟨a, c, b⟩ hx => mem_vstructs.mpr ((h a c b).mp (mem_vstructs.mp hx)),
           fun ⟨a, c, b⟩ hx => mem_vstructs.mpr ((h a c b).mpr (mem_vstructs.mp hx))⟩

theorem adj_plain {D : MG} (hu : D.un = []) (a b : Nat) : Adj D a b ↔ ((a, b) ∈ D.dir ∨ (b, a) ∈ D.dir) := by
  simp only [Adj, hu, List.not_mem_nil, or_false]

theorem vstruct_congr {D1 D2 : MG} (hd : ∀ e, e ∈ D1.dir ↔ e ∈ D2.dir) (hu1 : D1.un = []) (hu2 : D2.un = [])
    (a c b : Nat) : VStruct D1 a c b ↔ VStruct D2 a c b := by
  simp only [VStruct, adj_plain hu1, adj_plain hu2, hd]

/-- the members of `classOf D` are exactly (as edge sets) the DAGs Markov equivalent to D -/
theorem compelled_iff_class (D : MG) (hd : IsDag D) (hwf : D.WF) (a b : Nat) :
    Compelled D a b ↔ ∀ o ∈ classOf D, (a, b) ∈ o := by
  have hDu := hd.plain.1
  constructor
  · intro hc o ho
    simp only [classOf, List.mem_filter, Bool.and_eq_true, Bool.not_eq_true'] at ho
    obtain ⟨hor, hcyc, hsv⟩ := ho
    have hends : ∀ e ∈ o, e.1 ∈ D.nodes ∧ e.2 ∈ D.nodes := by
      intro e he
      rcases mem_of_mem_orientation _ _ hor e he with h | h
      · exact hwf.1 _ h
      · exact ⟨(hwf.1 _ h).2, (hwf.1 _ h).1⟩
    have hwf' : ({ nodes := D.nodes, dir := o } : MG).WF :=
      ⟨hends, fun e he => (by cases he), fun e he => (by cases he)⟩
    apply hc { nodes := D.nodes, dir := o } ⟨⟨rfl, rfl, rfl⟩, (MG.hasCycle_false_iff _ hwf').mp hcyc⟩
    refine ⟨fun _ => Iff.rfl, ?_, fun a c b => ((sameVB_iff.mp hsv) a c b).symm⟩
    intro x y
    rw [adj_plain hDu, adj_plain (D := { nodes := D.nodes, dir := o }) rfl]
    constructor
    · rintro (h | h)
      · rcases mem_of_mem_orientation _ _ hor _ h with h' | h'
        · exact Or.inl h'
        · exact Or.inr h'
      · rcases mem_of_mem_orientation _ _ hor _ h with h' | h'
        · exact Or.inr h'
        · exact Or.inl h'
    · rintro (h | h)
      · rcases orientation_covers _ _ hor _ h with h' | h'
        · exact Or.inl h'
        · exact Or.inr h'
      · rcases orientation_covers _ _ hor _ h with h' | h'
        · exact Or.inr h'
        · exact Or.inl h'
  · intro hall D' hd' hm
    have hD'u := hd'.plain.1
    -- the orientation of D's edges that D' uses
    have hset : ∀ e, e ∈ D.dir.map (orientLike D'.dir) ↔ e ∈ D'.dir := by
      rintro ⟨x, y⟩
      simp only [List.mem_map, orientLike, List.contains_iff_mem]
      constructor
      · rintro ⟨⟨u, v⟩, he0, hf⟩
        split at hf
        · rename_i hc; rw [← hf]; exact hc
        · rename_i hc
          simp only [Prod.mk.injEq] at hf
          obtain ⟨rfl, rfl⟩ := hf
          have := (adj_plain hD'u u v).mp ((hm.skel u v).mpr ((adj_plain hDu u v).mpr (Or.inl he0)))
          rcases this with h1 | h1
          · exact absurd h1 hc
          · exact h1
      · intro he
        have := (adj_plain hDu x y).mp ((hm.skel x y).mp ((adj_plain hD'u x y).mpr (Or.inl he)))
        rcases this with h1 | h1
        · exact ⟨(x, y), h1, by simp [he]⟩
        · refine ⟨(y, x), h1, ?_⟩
          have : (y, x) ∉ D'.dir := no_two_cycle hd'.acyclic he
          simp [this]
    apply (hset (a, b)).mp
    apply hall
    simp only [classOf, List.mem_filter, Bool.and_eq_true, Bool.not_eq_true']
    have hor : D.dir.map (orientLike D'.dir) ∈ orientations D.dir := by
      apply map_mem_orientations
      intro e; unfold orientLike; split
      · exact Or.inl rfl
      · exact Or.inr rfl
    have hends : ∀ e ∈ D.dir.map (orientLike D'.dir), e.1 ∈ D.nodes ∧ e.2 ∈ D.nodes := by
      intro e he
      rcases mem_of_mem_orientation _ _ hor e he with h | h
      · exact hwf.1 _ h
      · exact ⟨(hwf.1 _ h).2, (hwf.1 _ h).1⟩
    have hwf' : ({ nodes := D.nodes, dir := D.dir.map (orientLike D'.dir) } : MG).WF :=
      ⟨hends, fun e he => (by cases he), fun e he => (by cases he)⟩
    refine ⟨hor, ?_, ?_⟩
    · rw [MG.hasCycle_false_iff _ hwf']
      exact acyclic_congr (D := D') (D' := { nodes := D.nodes, dir := D.dir.map (orientLike D'.dir) }) hset hd'.acyclic
    · rw [sameVB_iff]
      intro x c y
      rw [← hm.vstructs x c y]
      exact (vstruct_congr (D1 := { nodes := D.nodes, dir := D.dir.map (orientLike D'.dir) }) (D2 := D')
        hset rfl hD'u x c y).symm

/-- any labelling of D's edges that is `true` exactly on the compelled ones yields the essential graph -/
theorem essential_of_labelling (D : MG) (hd : IsDag D) (p : Nat × Nat → Bool)
    (hp : ∀ a b, (a, b) ∈ D.dir → (p (a, b) = true ↔ Compelled D a b)) :
    Essential D { nodes := D.nodes, dir := D.dir.filter p, un := D.dir.filter fun e => !p e } := by
  have hDu := hd.plain.1
  refine ⟨fun _ => Iff.rfl, ⟨rfl, rfl⟩, ?_, ?_, ?_⟩
  · intro a b
    simp only [Adj, hDu, List.mem_filter, List.not_mem_nil, or_false, Bool.not_eq_true']
    constructor
    · rintro (h | h | h | h)
      · exact Or.inl h.1
      · exact Or.inr h.1
      · exact Or.inl h.1
      · exact Or.inr h.1
    · rintro (h | h)
      · cases hv : p (a, b) with
        | true => exact Or.inl ⟨h, rfl⟩
        | false => exact Or.inr (Or.inr (Or.inl ⟨h, rfl⟩))
      · cases hv : p (b, a) with
        | true => exact Or.inr (Or.inl ⟨h, rfl⟩)
        | false => exact Or.inr (Or.inr (Or.inr ⟨h, rfl⟩))
  · intro a b
    simp only [List.mem_filter]
    constructor
    · rintro ⟨hE, hl⟩; exact (hp a b hE).mp hl
    · intro hc
      have hE := compelled_mem hd hc
      exact ⟨hE, (hp a b hE).mpr hc⟩
  · intro a b
    simp only [List.mem_filter, Bool.not_eq_true']
    constructor
    · rintro (⟨hE, hl⟩ | ⟨hE, hl⟩)
      · refine ⟨(adj_plain hDu a b).mpr (Or.inl hE), ?_, ?_⟩
        · intro hc; rw [(hp a b hE).mpr hc] at hl; cases hl
        · intro hc; exact no_two_cycle hd.acyclic hE (compelled_mem hd hc)
      · refine ⟨(adj_plain hDu a b).mpr (Or.inr hE), ?_, ?_⟩
        · intro hc; exact no_two_cycle hd.acyclic hE (compelled_mem hd hc)
        · intro hc; rw [(hp b a hE).mpr hc] at hl; cases hl
    · rintro ⟨hadj, hn1, hn2⟩
      rcases (adj_plain hDu a b).mp hadj with hE | hE
      · left; refine ⟨hE, ?_⟩
        cases hv : p (a, b) with
        | true => exact absurd ((hp a b hE).mp hv) hn1
        | false => rfl
      · right; refine ⟨hE, ?_⟩
        cases hv : p (b, a) with
        | true => exact absurd ((hp b a hE).mp hv) hn2
        | false => rfl

/-- **the run-time oracle is the specification**: for every DAG, `essentialDec D` is the essential graph -/
theorem essentialDec_spec (D : MG) (hd : IsDag D) (hwf : D.WF) : Essential D (essentialDec D) := by
  have := essential_of_labelling D hd (fun e => (classOf D).all (·.contains e)) (by
    intro a b _
    rw [compelled_iff_class D hd hwf a b]
    simp [List.all_eq_true])
  exact this

/-- the Markov-equivalence check used for the round trips decides `MarkovEquiv` on plain digraphs -/
theorem meqDec_iff (D D' : MG) (hu : D.un = []) (hu' : D'.un = []) : meqDec D D' = true ↔ MarkovEquiv D D' := by
  simp only [meqDec, Bool.and_eq_true, subsetB_iff, List.all_eq_true, adjB'_iff, sameVB_iff]
  constructor
  · rintro ⟨⟨⟨⟨hn1, hn2⟩, hs1⟩, hs2⟩, hv⟩
    refine ⟨fun v => ⟨hn2 v, hn1 v⟩, ?_, fun a c b => (hv a c b).symm⟩
    intro a b
    rw [adj_plain hu, adj_plain hu']
    constructor
    · rintro (h | h)
      · exact (adj_plain hu a b).mp (hs2 _ h)
      · exact (adj_plain hu a b).mp (hs2 _ h).symm
    · rintro (h | h)
      · exact (adj_plain hu' a b).mp (hs1 _ h)
      · exact (adj_plain hu' a b).mp (hs1 _ h).symm
  · intro hm
    refine ⟨⟨⟨⟨fun v hv => (hm.nodes v).mpr hv, fun v hv => (hm.nodes v).mp hv⟩, ?_⟩, ?_⟩, fun a c b => (hm.vstructs a c b).symm⟩
    · intro e he; exact (hm.skel _ _).mpr ((adj_plain hu _ _).mpr (Or.inl he))
    · intro e he; exact (hm.skel _ _).mp ((adj_plain hu' _ _).mpr (Or.inl he))

/-- conditional on T3 the model and the run-time oracle return the same graph -/
theorem model_eq_essentialDec_of_T3 (h : T3) (G : MG) (topo : List Nat) (hd : IsDag G) (hw : G.WF)
    (hn : G.dir.Nodup) (ht : IsTopo G topo) : SameGraph (dagToCpdag G topo) (essentialDec G) :=
  essential_unique hd (C04_full_of_T3 h G topo hd hw hn ht) (essentialDec_spec G hd hw)

end C04
