/-!
# C13 — model of the stationary time-series graph classes

`pywhy_graphs/classes/timeseries/{base,graph,digraph,mixededge,cpdag,pag}.py` (tree with the `fix:`
commits of branch f-a13).  A node is `(variable, lag)` with `lag ≥ 0` standing for the time index
`-lag`; operations name nodes by their *time index* (`TNode = Nat × Int`) exactly like the Python API,
so positive time indices and lags outside the window are representable (and rejected).

State = node set, `max_lag`, one edge list per edge type (layer).  All functions work at node level
like the code (`add_homologous_edges` is a loop over the window); nothing in the model assumes that
the state is complete or shift closed – that is the theorem (`Pw/C13/Proofs.lean`).

Abstractions (validated by the correspondence harness on every run):
* the per-layer node sets / `max_lag` of the mixed-edge classes are identified with the master's
  (the harness checks on the implementation that they agree after every operation);
* an `nx.Graph` layer is a list of edges stored earlier-node-first (contemporaneous: smaller variable
  first), lookups are symmetric;  * attributes are ignored;  * only "raised or not" is modelled, not
  the exception class.
-/
namespace C13

abbrev Node := Nat × Nat
abbrev Edge := Node × Node
/-- node as written in the API: (variable, time index ≤ 0) -/
abbrev TNode := Nat × Int

/-- `dir`: `StationaryTimeSeriesDiGraph` (check_time_direction = True); `circ`: the same class with
check_time_direction = False (circle layer of the PAG); `und`: `StationaryTimeSeriesGraph`. -/
inductive Kind | dir | circ | und
  deriving DecidableEq, Repr, Inhabited

inductive Guard | none | cpdag
  deriving DecidableEq, Repr

structure Cfg where
  kinds : List Kind
  /-- mixed-edge container (`StationaryTimeSeriesMixedEdgeGraph` and subclasses) vs a plain graph -/
  mixed : Bool
  guard : Guard

def cfgGraph : Cfg := ⟨[.und], false, .none⟩
def cfgDigraph : Cfg := ⟨[.dir], false, .none⟩
/-- `StationaryTimeSeriesMixedEdgeGraph` with a directed and a bidirected layer -/
def cfgMixed : Cfg := ⟨[.dir, .und], true, .none⟩
/-- directed, undirected -/
def cfgCpdag : Cfg := ⟨[.dir, .und], true, .cpdag⟩
/-- directed, circle, undirected, bidirected -/
def cfgPag : Cfg := ⟨[.dir, .circ, .und, .und], true, .none⟩

structure Layer where
  kind : Kind
  edges : List Edge
  deriving Repr, Inhabited

structure St where
  nodes : List Node
  maxLag : Nat
  layers : List Layer
  deriving Repr, Inhabited

def init (cfg : Cfg) (m : Nat) : St := ⟨[], m, cfg.kinds.map fun k => ⟨k, []⟩⟩

/-- edge-type selector of the mixed-edge API: `'all'` or one layer -/
inductive Sel | all | one (i : Nat)
  deriving DecidableEq, Repr

inductive Op
  | addEdge (l : Sel) (u v : TNode)
  | addEdges (l : Sel) (es : List (TNode × TNode))
  | removeEdge (l : Sel) (u v : TNode)
  | removeEdges (l : Sel) (es : List (TNode × TNode))
  | addVar (x : Nat)
  | removeVar (x : Nat)
  | setMaxLag (k : Int)
  | copy
  deriving Repr

/-! ## node level helpers -/

def lag (n : TNode) : Nat := n.2.natAbs
def toNode (n : TNode) : Node := (n.1, lag n)
/-- `_check_ts_node` passes -/
def valid (m : Nat) (n : TNode) : Bool := decide (n.2 ≤ 0) && decide (lag n ≤ m)
/-- `_check_ts_edge` passes: both nodes valid and the to-node is not earlier than the from-node
(RuntimeError for check_time_direction, ValueError for the other stationary layers) -/
def okEdge (m : Nat) (u v : TNode) : Bool := valid m u && valid m v && !decide (v.2 < u.2)

def union (E new : List Edge) : List Edge := E ++ new.filter fun e => !E.contains e
def diff (E rem : List Edge) : List Edge := E.filter fun e => !rem.contains e

/-- the loop of `add_homologous_edges` / `remove_homologous_edges` (direction "both") for an edge
whose from-node is `d` steps earlier than its to-node: `((x,-(d+i)), (y,-i))`, `i = 0 .. m-d` -/
def homologous (m x d y : Nat) : List Edge :=
  (List.range (m + 1 - d)).map fun i => ((x, d + i), (y, i))

/-- the same loop when the from-node is `e > 0` steps *later*: the first `e` iterations hit nodes
with a positive time index (never present), the others are `((x,-k),(y,-(k+e)))` -/
def homologousBack (m x e y : Nat) : List Edge :=
  (List.range (m + 1 - e)).map fun k => ((x, k), (y, k + e))

def swap (e : Edge) : Edge := (e.2, e.1)
/-- storage form of an undirected-type edge: earlier node first, contemporaneous: smaller variable
first -/
def canonUnd (e : Edge) : Edge :=
  if e.1.2 < e.2.2 then swap e else if e.1.2 = e.2.2 ∧ e.2.1 < e.1.1 then swap e else e

/-- all homologous copies (window `m`) of an edge given from-node first -/
def copies (k : Kind) (m : Nat) (e : Edge) : List Edge :=
  match k with
  | .und => let e := canonUnd e; homologous m e.1.1 (e.1.2 - e.2.2) e.2.1
  | _ => if e.2.2 ≤ e.1.2 then homologous m e.1.1 (e.1.2 - e.2.2) e.2.1
         else homologousBack m e.1.1 (e.2.2 - e.1.2) e.2.1

def Layer.add (m : Nat) (L : Layer) (u v : TNode) : Layer :=
  { L with edges := union L.edges (copies L.kind m (toNode u, toNode v)) }
def Layer.remove (m : Nat) (L : Layer) (u v : TNode) : Layer :=
  { L with edges := diff L.edges (copies L.kind m (toNode u, toNode v)) }

/-- `add_node`: a variable is expanded over the whole window -/
def addVarNodes (m : Nat) (nodes : List Node) (x : Nat) : List Node :=
  nodes ++ ((List.range (m + 1)).map fun t => (x, t)).filter fun n => !nodes.contains n
def St.addVar (s : St) (x : Nat) : St := { s with nodes := addVarNodes s.maxLag s.nodes x }

def hasNode (s : St) (n : TNode) : Bool := decide (n.2 ≤ 0) && s.nodes.contains (toNode n)

def selHas : Sel → Nat → Bool
  | .all, _ => true
  | .one i, j => i == j
def selOk (n : Nat) : Sel → Bool
  | .all => true
  | .one i => decide (i < n)

/-- apply `f` to the selected layers (`_apply_to_all_graphs` / `_get_internal_graph`) -/
def mapSel (sel : Sel) (f : Layer → Layer) : Nat → List Layer → List Layer
  | _, [] => []
  | j, L :: r => (if selHas sel j then f L else L) :: mapSel sel f (j + 1) r

/-! ## guards of the CPDAG (`_check_adding_cpdag_edge`; layer 0 = directed, 1 = undirected) -/

def hasDir (E : List Edge) (u v : TNode) : Bool :=
  decide (u.2 ≤ 0) && decide (v.2 ≤ 0) && E.contains (toNode u, toNode v)
def hasUnd (E : List Edge) (u v : TNode) : Bool := hasDir E u v || hasDir E v u

def layerEdges (s : St) (i : Nat) : List Edge := (s.layers.getD i default).edges

def guardBad (cfg : Cfg) (s : St) (sel : Sel) (u v : TNode) : Bool :=
  match cfg.guard, sel with
  | .cpdag, .one 0 => hasUnd (layerEdges s 1) u v || hasDir (layerEdges s 0) v u
  | .cpdag, .one 1 => hasDir (layerEdges s 0) u v || hasDir (layerEdges s 0) v u
  | _, _ => false

/-! ## add_edge / add_edges_from -/

/-- `TsGraphEdgeMixin.add_edge` of a plain graph -/
def addEdgeBase (s : St) (u v : TNode) : St × Bool :=
  if !okEdge s.maxLag u v then (s, true) else
  let s1 := (s.addVar u.1).addVar v.1
  ({ s1 with layers := s1.layers.map (·.add s.maxLag u v) }, false)

/-- `MixedEdgeGraph.add_edge`: `if u not in self._node: self.add_node(u)` -/
def ensureNode (s : St) (u : TNode) : Option St :=
  if hasNode s u then some s else if valid s.maxLag u then some (s.addVar u.1) else none

/-- (guarded) `add_edge` of the mixed-edge classes; a rejected call may already have added the
variables of its nodes (never an edge) -/
def addEdgeMixed (cfg : Cfg) (s : St) (sel : Sel) (u v : TNode) : St × Bool :=
  if guardBad cfg s sel u v then (s, true) else
  match ensureNode s u with
  | none => (s, true)
  | some s1 =>
    match ensureNode s1 v with
    | none => (s1, true)
    | some s2 =>
      if !selOk s2.layers.length sel then (s2, true) else
      if !okEdge s2.maxLag u v then (s2, true) else
      ({ s2 with layers := mapSel sel (·.add s2.maxLag u v) 0 s2.layers }, false)

def addEdge (cfg : Cfg) (s : St) (sel : Sel) (u v : TNode) : St × Bool :=
  if cfg.mixed then addEdgeMixed cfg s sel u v else addEdgeBase s u v

/-- `TsGraphEdgeMixin.add_edges_from`: every edge is checked first -/
def addEdgesBase (s : St) (es : List (TNode × TNode)) : St × Bool :=
  if es.any (fun e => !okEdge s.maxLag e.1 e.2) then (s, true) else
  (es.foldl (fun s e => (addEdgeBase s e.1 e.2).1) s, false)

/-- first loop of `MixedEdgeGraph.add_edges_from` -/
def ensureAll (s : St) : List (TNode × TNode) → St × Bool
  | [] => (s, false)
  | (u, v) :: r =>
    match ensureNode s u with
    | none => (s, true)
    | some s1 =>
      match ensureNode s1 v with
      | none => (s1, true)
      | some s2 => ensureAll s2 r

def addEdgesMixed (cfg : Cfg) (s : St) (sel : Sel) (es : List (TNode × TNode)) : St × Bool :=
  if es.any (fun e => guardBad cfg s sel e.1 e.2) then (s, true) else
  let r := ensureAll s es
  if r.2 then (r.1, true) else
  let s1 := r.1
  if !selOk s1.layers.length sel then (s1, true) else
  if es.any (fun e => !okEdge s1.maxLag e.1 e.2) then (s1, true) else
  let ls := mapSel sel (fun L => es.foldl (fun L e => L.add s1.maxLag e.1 e.2) L) 0 s1.layers
  ({ s1 with layers := ls }, false)

def addEdges (cfg : Cfg) (s : St) (sel : Sel) (es : List (TNode × TNode)) : St × Bool :=
  if cfg.mixed then addEdgesMixed cfg s sel es else addEdgesBase s es

/-! ## remove_edge / remove_edges_from -/

def removeEdge (cfg : Cfg) (s : St) (sel : Sel) (u v : TNode) : St × Bool :=
  let sel := if cfg.mixed then sel else .all
  if !selOk s.layers.length sel then (s, true) else
  if !(valid s.maxLag u && valid s.maxLag v) then (s, true) else
  ({ s with layers := mapSel sel (·.remove s.maxLag u v) 0 s.layers }, false)

def removeEdges (cfg : Cfg) (s : St) (sel : Sel) (es : List (TNode × TNode)) : St × Bool :=
  if es.any (fun e => !(valid s.maxLag e.1 && valid s.maxLag e.2)) then (s, true) else
  let sel := if cfg.mixed then sel else .all
  if !es.isEmpty && !selOk s.layers.length sel then (s, true) else
  (es.foldl (fun s e => (removeEdge cfg s sel e.1 e.2).1) s, false)

/-! ## variables and the window -/

/-- `remove_variable`: the nodes of `x` inside the window, with their incident edges -/
def St.removeVar (s : St) (x : Nat) : St :=
  let gone : Node → Bool := fun n => n.1 == x && decide (n.2 ≤ s.maxLag)
  { s with nodes := s.nodes.filter (fun n => !gone n),
           layers := s.layers.map (fun L =>
             { L with edges := L.edges.filter (fun e => !gone e.1 && !gone e.2) }) }

def vars (nodes : List Node) : List Nat := (nodes.map (·.1)).eraseDups

/-- `sorted(edge, key=lambda x: x[1])`: earlier node first, stable -/
def sortedByTime (e : Edge) : Edge := if e.1.2 < e.2.2 then swap e else e

/-- `set_max_lag(k)` for `k > max_lag` -/
def grow (s : St) (k : Nat) : St :=
  { nodes := (vars s.nodes).foldl (addVarNodes k) s.nodes,
    maxLag := k,
    layers := s.layers.map (fun L =>
      { L with edges := L.edges.foldl (fun acc e => union acc (copies L.kind k (sortedByTime e))) L.edges }) }

/-- `set_max_lag(k)` for `k < max_lag`: the nodes at lags `max_lag, …, k+1` go, with their edges -/
def shrink (s : St) (k : Nat) : St :=
  let gone : Node → Bool := fun n => decide (k < n.2) && decide (n.2 ≤ s.maxLag)
  { nodes := s.nodes.filter (fun n => !gone n),
    maxLag := k,
    layers := s.layers.map (fun L =>
      { L with edges := L.edges.filter (fun e => !gone e.1 && !gone e.2) }) }

def setMaxLag (s : St) (k : Int) : St × Bool :=
  if k ≤ 0 then (s, true) else
  let k := k.toNat
  if s.maxLag < k then (grow s k, false)
  else if k < s.maxLag then (shrink s k, false)
  else (s, false)

/-! ## copy -/

def tnode (n : Node) : TNode := (n.1, -(n.2 : Int))

/-- the edges `copy()` re-adds.  Plain graphs: every adjacency entry `(u, v)` with `v[1] >= u[1]`;
mixed-edge graphs: every adjacency entry with `v[1] == 0` (an `nx.Graph` layer lists both
orientations). -/
def copyCands (mixed : Bool) (L : Layer) : List Edge :=
  let adj := match L.kind with
    | .und => L.edges ++ L.edges.map swap
    | _ => L.edges
  if mixed then adj.filter fun e => e.2.2 == 0 else adj.filter fun e => decide (e.2.2 ≤ e.1.2)

def foldAdd (cfg : Cfg) (i : Nat) : St × Bool → List Edge → St × Bool
  | r, [] => r
  | (s, true), _ => (s, true)
  | (s, false), e :: es => foldAdd cfg i (addEdge cfg s (.one i) (tnode e.1) (tnode e.2)) es

def copyLayers (cfg : Cfg) : Nat → St × Bool → List Layer → St × Bool
  | _, r, [] => r
  | i, r, L :: Ls => copyLayers cfg (i + 1) (foldAdd cfg i r (copyCands cfg.mixed L)) Ls

/-- `copy()`: a fresh graph of the same class and max_lag, all nodes added (each expands to its
variable; a node outside the window raises), then the edges through the public `add_edge` -/
def copy (cfg : Cfg) (s : St) : St × Bool :=
  let s0 : St := ⟨[], s.maxLag, s.layers.map fun L => ⟨L.kind, []⟩⟩
  if s.nodes.any (fun n => decide (s.maxLag < n.2)) then (s0, true) else
  let s1 := s.nodes.foldl (fun acc n => acc.addVar n.1) s0
  copyLayers cfg 0 (s1, false) s.layers

/-! ## the state machine -/

/-- one public operation: new state and "an exception was raised".  `copy` returns the copy (the
history continues on it); when `copy` raises the original is kept. -/
def step (cfg : Cfg) (s : St) : Op → St × Bool
  | .addEdge l u v => addEdge cfg s l u v
  | .addEdges l es => addEdges cfg s l es
  | .removeEdge l u v => removeEdge cfg s l u v
  | .removeEdges l es => removeEdges cfg s l es
  | .addVar x => (s.addVar x, false)
  | .removeVar x => (s.removeVar x, false)
  | .setMaxLag k => setMaxLag s k
  | .copy => let r := copy cfg s; if r.2 then (s, true) else r

/-- all states of a history, with the raised flag of the operation that led to each -/
def run (cfg : Cfg) : St → List Op → List (St × Bool)
  | _, [] => []
  | s, op :: ops => let r := step cfg s op; r :: run cfg r.1 ops

end C13
