import Pw.T8.SigPath
open Closure MG

/-! # T8, part C: a sigma-open walk in G yields an m-connecting walk in the acyclification A

The G-walk is processed hop by hop. While it stays inside one strongly connected component S the
A-side keeps a summary: either (H) every node of S can be reached in A through an arrowhead, or (T) some
node of S outside Z has been reached through a tail. -/
namespace C19

variable {G A : MG}

theorem A_dir_of_cross (hacy : IsAcyclification G A) {v q s' : Nat} (hvq : (v, q) ∈ G.dir)
    (hn : ¬ SC G v q) (hs : SC G q s') : (v, s') ∈ A.dir := by
  rw [hacy.dir]
  exact ⟨fun h => hn (h.trans hs.symm), q, hs.symm, hvq⟩

theorem A_bi_of_cross (hacy : IsAcyclification G A) {v q s s' : Nat}
    (hvq : (v, q) ∈ G.bi ∨ (q, v) ∈ G.bi) (hn : ¬ SC G v q) (hs : SC G v s) (hs' : SC G q s') :
    (s, s') ∈ A.bi ∨ (s', s) ∈ A.bi := by
  rw [hacy.bi]
  refine ⟨?_, Or.inr ⟨v, q, hs.symm, hs'.symm, hvq⟩⟩
  rintro rfl
  exact hn (hs.trans hs'.symm)

theorem A_bi_of_same (hacy : IsAcyclification G A) {s s' : Nat} (hne : s ≠ s') (hs : SC G s s') :
    (s, s') ∈ A.bi ∨ (s', s) ∈ A.bi := by
  rw [hacy.bi]; exact ⟨hne, Or.inl hs⟩

theorem A_wf (hd : Dom G) (hun : G.un = []) (hacy : IsAcyclification G A) : A.WF := by
  refine ⟨?_, ?_, ?_⟩
  · rintro ⟨i, j⟩ he
    obtain ⟨_, k, hjk, hik⟩ := (hacy.dir i j).mp he
    rw [hacy.nodes]
    exact ⟨(hd.wf.1 _ hik).1, Anc.mem_nodes_left hd.wf hjk.1 (hd.wf.1 _ hik).2⟩
  · rintro ⟨i, j⟩ he
    have hb := (hacy.bi i j).mp (Or.inl he)
    rw [hacy.nodes]
    obtain ⟨hne, h | ⟨a, b, hia, hjb, hab⟩⟩ := hb
    · -- same component, distinct: both lie on a directed cycle, hence are endpoints of edges
      have hi : i ∈ G.nodes := by
        cases h.1 with
        | refl => exact absurd rfl hne
        | step e _ => exact (hd.wf.1 _ e).1
      exact ⟨hi, Anc.mem_nodes hd.wf h.1 hi⟩
    · have ha : a ∈ G.nodes ∧ b ∈ G.nodes := by
        rcases hab with h | h
        · exact hd.wf.2.1 _ h
        · exact (hd.wf.2.1 _ h).symm
      exact ⟨Anc.mem_nodes_left hd.wf hia.1 ha.1, Anc.mem_nodes_left hd.wf hjb.1 ha.2⟩
  · rw [hacy.un, hun]; intro e he; cases he

/-- L1: if a component contains an ancestor (in G) of Z, it contains an ancestor in A of Z -/
theorem exists_A_anc (hacy : IsAcyclification G A) {c z : Nat} (ha : Anc G c z) :
    ∃ s, SC G c s ∧ Anc A s z := by
  induction ha with
  | refl a => exact ⟨a, SC.refl G a, Anc.refl a⟩
  | @step a b z e _ ih =>
    obtain ⟨t, hbt, htz⟩ := ih
    by_cases hab : SC G a b
    · exact ⟨t, hab.trans hbt, htz⟩
    · exact ⟨a, SC.refl G a, Anc.step (A_dir_of_cross hacy e hab hbt) htz⟩

/-- A-side summary at the current node `v` of the G-walk with G-entry `e` -/
def Inv (G A : MG) (Z : List Nat) (x v : Nat) (e : Option (Nat × Mark)) : Prop :=
  (∃ u m, e = some (u, m) ∧ (∀ s, SC G v s → Conn A Z (A.anc Z) x s .head) ∧
      (m = .tail → ∃ c, SC G v c ∧ ColliderOpen G Z c)) ∨
  (∃ s1, SC G v s1 ∧ Conn A Z (A.anc Z) x s1 .tail ∧ s1 ∉ Z)

theorem sig_to_conn (hd : Dom G) (hun : G.un = []) (hacy : IsAcyclification G A) {Z : List Nat}
    (hZ : ∀ z ∈ Z, z ∈ G.nodes) {x : Nat} :
    ∀ (hs : List Hop) (v : Nat) (e : Option (Nat × Mark)), ValidW G v hs → OpenSig G Z e v hs →
      endNode v hs ∉ Z → (e = none → v ∉ Z) → Inv G A Z x v e →
      ∃ m, Conn A Z (A.anc Z) x (endNode v hs) m
  | [], v, e, _, _, _, _, hinv => by
    simp only [endNode]
    rcases hinv with ⟨_, _, _, hH, _⟩ | ⟨s1, hs1, hc, hz1⟩
    · exact ⟨_, hH v (SC.refl G v)⟩
    · by_cases heq : s1 = v
      · subst heq; exact ⟨_, hc⟩
      · exact ⟨_, Conn.step hc
          (Or.inr (Or.inr (Or.inl ⟨rfl, rfl, A_bi_of_same hacy heq hs1.symm⟩)) : HasEdge A s1 v .head .head)
          (by simp; exact hz1)⟩
  | h :: t, v, e, hv, ho, hend, hv0, hinv => by
    obtain ⟨hv1, hv2⟩ := hv
    rw [openSig_cons] at ho
    obtain ⟨ho1, ho2⟩ := ho
    simp only [endNode] at hend ⊢
    have hAwf : A.WF := A_wf hd hun hacy
    have hZA : ∀ z ∈ Z, z ∈ A.nodes := by rw [hacy.nodes]; exact hZ
    -- a witness "the component contains a G-ancestor of Z" gives an A-ancestor of Z in the component
    have witA : (∃ c, SC G v c ∧ ColliderOpen G Z c) → ∃ s, SC G v s ∧ s ∈ A.anc Z := by
      rintro ⟨c, hvc, z, hz, hcz⟩
      obtain ⟨s, hcs, hsz⟩ := exists_A_anc hacy hcz
      exact ⟨s, hvc.trans hcs, (mem_anc hAwf hZA).mpr ⟨z, hz, hsz⟩⟩
    by_cases hsc : SC G v h.nx
    · -- the hop stays inside the component
      apply sig_to_conn hd hun hacy hZ t h.nx (some (v, h.mn)) hv2 ho2 hend (by intro hx; cases hx)
      rcases hinv with ⟨u, m, he, hH, hW⟩ | ⟨s1, hs1, hc, hz1⟩
      · refine Or.inl ⟨v, h.mn, rfl, fun s hs => hH s (hsc.trans hs), ?_⟩
        intro hmn
        -- the hop is v <- h.nx, so the mark at v is a head
        have hmp : h.mp = .head := by
          rw [hmn] at hv1; exact head_of_tail hun hv1.symm
        cases m with
        | head =>
          subst he
          simp only [sigO, sigmaCond, hmp, and_self, if_true] at ho1
          exact ⟨v, hsc.symm, ho1⟩
        | tail =>
          obtain ⟨c, hvc, hco⟩ := hW rfl
          exact ⟨c, hsc.symm.trans hvc, hco⟩
      · exact Or.inr ⟨s1, hsc.symm.trans hs1, hc, hz1⟩
    · -- the hop leaves the component
      -- some node of the component reached through a head, given a collider witness
      have viaHead : ∀ (mv : Mark), (∀ u m, e = some (u, m) → m = .head → mv = .head → ColliderOpen G Z v) →
          mv = .head →
          ∃ s mm, SC G v s ∧ Conn A Z (A.anc Z) x s mm ∧ (if mm = .head ∧ mv = .head then s ∈ A.anc Z else s ∉ Z) := by
        intro mv hcolv hmv
        rcases hinv with ⟨u, m, he, hH, hW⟩ | ⟨s1, hs1, hc, hz1⟩
        · have hw : ∃ c, SC G v c ∧ ColliderOpen G Z c := by
            cases m with
            | head => exact ⟨v, SC.refl G v, hcolv u .head he rfl hmv⟩
            | tail => exact hW rfl
          obtain ⟨s, hvs, hsan⟩ := witA hw
          exact ⟨s, .head, hvs, hH s hvs, by simp [hmv]; exact hsan⟩
        · exact ⟨s1, .tail, hs1, hc, by simp; exact hz1⟩
      have hcolv : ∀ u m, e = some (u, m) → m = .head → h.mp = .head → ColliderOpen G Z v := by
        intro u m he hm hmp
        subst he; subst hm
        simp only [sigO, sigmaCond, hmp, and_self, if_true] at ho1
        exact ho1
      cases hmp : h.mp with
      | tail =>
        -- v -> h.nx across components
        rw [hmp] at hv1
        have hmn := head_of_tail hun hv1
        rw [hmn] at hv1 ho2
        have hvq : (v, h.nx) ∈ G.dir := hv1.dir_of_tail_head
        have hvZ : v ∉ Z := by
          cases e with
          | none => exact hv0 rfl
          | some p =>
            obtain ⟨u, m⟩ := p
            simp only [sigO, sigmaCond, hmp] at ho1
            have : ¬ (m = .head ∧ Mark.tail = .head) := by rintro ⟨_, hx⟩; cases hx
            simp only [this, if_false] at ho1
            rcases ho1 with ho1 | ho1
            · exact ho1
            · exact absurd (ho1.1 trivial) hsc
        obtain ⟨mv, hcv⟩ : ∃ mv, Conn A Z (A.anc Z) x v mv := by
          rcases hinv with ⟨_, _, _, hH, _⟩ | ⟨s1, hs1, hc, hz1⟩
          · exact ⟨_, hH v (SC.refl G v)⟩
          · by_cases heq : s1 = v
            · subst heq; exact ⟨_, hc⟩
            · exact ⟨_, Conn.step hc
                (Or.inr (Or.inr (Or.inl ⟨rfl, rfl, A_bi_of_same hacy heq hs1.symm⟩)) : HasEdge A s1 v .head .head)
                (by simp; exact hz1)⟩
        apply sig_to_conn hd hun hacy hZ t h.nx (some (v, .head)) hv2 ho2 hend (by intro hx; cases hx)
        refine Or.inl ⟨v, .head, rfl, ?_, by intro hx; cases hx⟩
        intro s' hs'
        exact Conn.step hcv (Or.inl ⟨rfl, rfl, A_dir_of_cross hacy hvq hsc hs'⟩ : HasEdge A v s' .tail .head)
          (by simp; exact hvZ)
      | head =>
        rw [hmp] at hv1
        obtain ⟨s, mm, hvs, hcs, hcond⟩ := viaHead .head (fun u m he hm _ => hcolv u m he hm hmp) rfl
        cases hmn : h.mn with
        | tail =>
          -- v <- h.nx across components
          rw [hmn] at hv1 ho2
          have hqv : (h.nx, v) ∈ G.dir := hv1.symm.dir_of_tail_head
          have hsc' : ¬ SC G h.nx v := fun hx => hsc hx.symm
          have hqZ : h.nx ∉ Z := by
            cases t with
            | nil => simpa [endNode] using hend
            | cons h2 t2 =>
              rw [openSig_cons] at ho2
              have := ho2.1
              simp only [sigO, sigmaCond] at this
              have hnc : ¬ (Mark.tail = .head ∧ h2.mp = .head) := by rintro ⟨hx, _⟩; cases hx
              simp only [hnc, if_false] at this
              rcases this with this | this
              · exact this
              · exact absurd (this.2 trivial) hsc'
          have hcq : Conn A Z (A.anc Z) x h.nx .tail :=
            Conn.step hcs (Or.inr (Or.inl ⟨rfl, rfl, A_dir_of_cross hacy hqv hsc' hvs⟩) : HasEdge A s h.nx .head .tail)
              hcond
          apply sig_to_conn hd hun hacy hZ t h.nx (some (v, .tail)) hv2 ho2 hend (by intro hx; cases hx)
          exact Or.inr ⟨h.nx, SC.refl G _, hcq, hqZ⟩
        | head =>
          -- v <-> h.nx across components
          rw [hmn] at hv1 ho2
          have hbi : (v, h.nx) ∈ G.bi ∨ (h.nx, v) ∈ G.bi := by
            rcases hv1 with ⟨h1, _, _⟩ | ⟨_, h2, _⟩ | ⟨_, _, h3⟩ | ⟨h1, _, _⟩
            · cases h1
            · cases h2
            · exact h3
            · cases h1
          apply sig_to_conn hd hun hacy hZ t h.nx (some (v, .head)) hv2 ho2 hend (by intro hx; cases hx)
          refine Or.inl ⟨v, .head, rfl, ?_, by intro hx; cases hx⟩
          intro s' hs'
          exact Conn.step hcs
            (Or.inr (Or.inr (Or.inl ⟨rfl, rfl, A_bi_of_cross hacy hbi hsc hvs hs'⟩)) : HasEdge A s s' .head .head)
            hcond

end C19
