import Pw.C03.Full
/-! C03 — stationary time-series variants (conditional result, no correspondence model).

`StationaryTimeSeriesCPDAG.add_edge(u, v, t)` evaluates the guard on the *named* pair only and then
stores the entry on every homologous copy of the pair (all time shifts inside the window).  If the
graph is shift-invariant on those copies — all of them carry the same marks, which is what C13 is
about — the single-pair table is enough: the invariant survives, and the copies stay equal.

The hypothesis `hstat` (homologous pairs carry equal bits) is *assumed* here, it is not established
for the implementation; the time-series classes are compared with the spec predicates by testing
only (see the known findings for where they fall short). -/
namespace C03
open PairState

variable {σ : Type} [PairState σ]

namespace PairMap

theorem rd_wr_other (g : PairMap σ) (u v a b : Nat) (s : σ) (h : key a b ≠ key u v) :
    rd (wr g u v s) a b = rd g a b := by
  unfold rd
  by_cases hab : a < b
  · simp only [hab, if_true]
    exact wr_other g u v s a b (by rw [← show key a b = (a, b) by simp [key, hab]]; exact h)
  · simp only [hab, if_false]
    rw [wr_other g u v s b a (by rw [← show key a b = (b, a) by simp [key, hab]]; exact h)]

end PairMap

/-- store `raw` on every copy -/
def storeCopies (raw : σ → σ) (g : PairMap σ) (copies : List (Nat × Nat)) : PairMap σ :=
  copies.foldl (fun h e => h.wr e.1 e.2 (raw (h.rd e.1 e.2))) g

/-- guarded add on a stationary graph: guard on the named pair, raw store on all copies -/
def tsAdd (check : σ → Bool) (raw : σ → σ) (g : PairMap σ) (u v : Nat) (copies : List (Nat × Nat)) :
    PairMap σ × Bool :=
  if check (g.rd u v) then (g, true) else (storeCopies raw g copies, false)

theorem storeCopies_All {P : σ → Prop} (hsw : ∀ s, P s → P (swap s)) (raw : σ → σ) (s0 : σ)
    (hraw : P (raw s0)) (copies : List (Nat × Nat))
    (hdist : copies.Pairwise fun e e' => PairMap.key e.1 e.2 ≠ PairMap.key e'.1 e'.2) :
    ∀ g : PairMap σ, PairMap.All P g → (∀ e ∈ copies, g.rd e.1 e.2 = s0) →
      PairMap.All P (storeCopies raw g copies) ∧
      (∀ e ∈ copies, (storeCopies raw g copies).rd e.1 e.2 = raw s0) := by
  induction copies with
  | nil => intro g h _; exact ⟨h, by simp⟩
  | cons e es ih =>
    intro g h hstat
    rcases e with ⟨u, v⟩
    have hd := List.pairwise_cons.1 hdist
    have hs0 : g.rd u v = s0 := hstat (u, v) List.mem_cons_self
    have hrest : ∀ e ∈ es, (g.wr u v (raw (g.rd u v))).rd e.1 e.2 = s0 := by
      intro e he
      rw [PairMap.rd_wr_other g u v e.1 e.2 _ (fun hk => hd.1 e he hk.symm)]
      exact hstat e (List.mem_cons_of_mem _ he)
    have hAll : PairMap.All P (g.wr u v (raw (g.rd u v))) :=
      PairMap.All.wr hsw h u v _ (by rw [hs0]; exact hraw)
    have := ih hd.2 _ hAll hrest
    refine ⟨this.1, ?_⟩
    intro e he
    rcases List.mem_cons.1 he with rfl | he'
    · -- the first copy is not overwritten by the later ones
      show (storeCopies raw (g.wr u v (raw (g.rd u v))) es).rd u v = raw s0
      have key : ∀ (es : List (Nat × Nat)) (h : PairMap σ),
          (∀ e ∈ es, PairMap.key u v ≠ PairMap.key e.1 e.2) →
          (storeCopies raw h es).rd u v = h.rd u v := by
        intro es
        induction es with
        | nil => intro h _; rfl
        | cons e' es' ih' =>
          intro h hne
          show (storeCopies raw (h.wr e'.1 e'.2 _) es').rd u v = _
          rw [ih' _ (fun e he => hne e (List.mem_cons_of_mem _ he)),
            PairMap.rd_wr_other h e'.1 e'.2 u v _ (hne e' List.mem_cons_self)]
      rw [key es _ hd.1, PairMap.rd_wr, hs0]
    · exact this.2 e he'

/-- **conditional (stationarity assumed)**: a guarded single addition on a shift-invariant PAG-like
    graph keeps every pair Good and keeps the homologous copies equal -/
theorem C03_ts_add_partial {M : Sem σ} {P : σ → Prop} (hS : Sound M P) (raw : ET → σ → σ) (t : ET)
    (hex : ∀ s, P s → (M.add t s).2 = false → P (raw t s))
    (g : PairMap σ) (u v : Nat) (copies : List (Nat × Nat)) (h : PairMap.All P g) (huv : u ≠ v)
    (hdist : copies.Pairwise fun e e' => PairMap.key e.1 e.2 ≠ PairMap.key e'.1 e'.2)
    (hstat : ∀ e ∈ copies, g.rd e.1 e.2 = g.rd u v) :
    PairMap.All P (tsAdd (fun s => (M.add t s).2) (raw t) g u v copies).1 ∧
      ((tsAdd (fun s => (M.add t s).2) (raw t) g u v copies).2 = true →
        (tsAdd (fun s => (M.add t s).2) (raw t) g u v copies).1 = g) ∧
      ((tsAdd (fun s => (M.add t s).2) (raw t) g u v copies).2 = false →
        ∀ e ∈ copies, (tsAdd (fun s => (M.add t s).2) (raw t) g u v copies).1.rd e.1 e.2 = raw t (g.rd u v)) := by
  cases hc : (M.add t (g.rd u v)).2 with
  | true =>
    have hval : tsAdd (fun s => (M.add t s).2) (raw t) g u v copies = (g, true) := by
      unfold tsAdd; simp [hc]
    rw [hval]; exact ⟨h, fun _ => rfl, fun hf => by simp at hf⟩
  | false =>
    have hval : tsAdd (fun s => (M.add t s).2) (raw t) g u v copies = (storeCopies (raw t) g copies, false) := by
      unfold tsAdd; simp [hc]
    have hraw : P (raw t (g.rd u v)) := hex _ (PairMap.All.rd hS.swapP h u v huv) hc
    have := storeCopies_All hS.swapP (raw t) (g.rd u v) hraw copies hdist g h hstat
    rw [hval]; exact ⟨this.1, fun hf => by simp at hf, fun _ => this.2⟩

/-- instance for the time-series CPDAG: directed / undirected additions -/
theorem C03_tscpdag_add_partial (t : ET) (ht : t = .directed ∨ t = .undirected)
    (g : PairMap CBits) (u v : Nat) (copies : List (Nat × Nat)) (h : InvC g) (huv : u ≠ v)
    (hdist : copies.Pairwise fun e e' => PairMap.key e.1 e.2 ≠ PairMap.key e'.1 e'.2)
    (hstat : ∀ e ∈ copies, g.rd e.1 e.2 = g.rd u v) :
    InvC (tsAdd (fun s => (addC t s).2) (rawAddC t) g u v copies).1 :=
  (C03_ts_add_partial soundC rawAddC t (fun s hs ha => (addC_exact t ht s hs).1 ha)
    g u v copies h huv hdist hstat).1

-- non-vacuity: (x,0)->(y,0) with its copy (x,-1)->(y,-1); nodes x-1=0, x0=1, y-1=2, y0=3
example : (tsAdd (fun s => (addC .directed s).2) (rawAddC .directed) PairMap.emp 1 3 [(1, 3), (0, 2)]).2 = false := by
  decide
example : ((tsAdd (fun s => (addC .directed s).2) (rawAddC .directed) PairMap.emp 1 3 [(1, 3), (0, 2)]).1 0 2).directed_uv = true := by
  decide

end C03
