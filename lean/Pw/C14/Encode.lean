import Pw.C14.Decode

/-! # C14 — the exporters on every graph of the documented domain (whole graph, any size) -/
namespace C14
set_option linter.unusedSimpArgs false

/-- documented cells of a configuration (`(0,0)` for anything not in the table) -/
def cellOf (c : Cls) (f : Fmt) (p : PB) : Int × Int := (lookupCfg (tableZ c f) p).getD (0, 0)

theorem cellOf_tableZ : ∀ c ∈ allCls, ∀ f ∈ [Fmt.numpy, .clearn, .pcalg], ∀ e ∈ tableZ c f, cellOf c f e.1 = e.2 := by decide

/-- `g` is a graph of class `c` in the domain of format `f` (hypothesis form): every pair of distinct
    nodes is non-adjacent or carries a configuration of the documented table -/
def InDom (c : Cls) (f : Fmt) (g : MG) (n : Nat) : Prop :=
  ∀ a b, a < n → b < n → a ≠ b → ∃ x y, (bits g a b, x, y) ∈ tableZ c f

/-- the documented matrix of `g` -/
def docMat (c : Cls) (f : Fmt) (g : MG) (n : Nat) : Mat := fun a b =>
  if a < n ∧ b < n ∧ a ≠ b then (cellOf c f (bits g a b)).1 else 0

theorem InDom.cells {c f g n} (h : InDom c f g n) {a b : Nat} (ha : a < n) (hb : b < n) (hab : a ≠ b) :
    (bits g a b, docMat c f g n a b, docMat c f g n b a) ∈ tableZ c f := by
  obtain ⟨x, y, he⟩ := h a b ha hb hab
  have h1 := cellOf_tableZ c (mem_allCls c) f (mem_fmts f) _ he
  have he' := tableZ_swap_closed c (mem_allCls c) f (mem_fmts f) _ he
  have h2 := cellOf_tableZ c (mem_allCls c) f (mem_fmts f) _ he'
  have hba : b ≠ a := fun e => hab e.symm
  simp only [docMat, ha, hb, hab, hba, ne_eq, not_false_eq_true, and_self, if_true, bits_swap g a b, h1, h2]
  exact he

theorem Mat.set_apply (m : Mat) (i j : Nat) (x : Int) (a b : Nat) :
    (m.set i j x) a b = if a = i ∧ b = j then x else m a b := rfl

theorem adjacent_empty : PB.empty.adjacent = false := by decide

/-- **`graph_to_clearn`** writes the documented endpoint matrix for every graph in the domain -/
theorem clEnc_spec (c : Cls) (g : MG) (n : Nat) (hg : InDom c .clearn g n) :
    ∃ m, clEnc c g n = some m ∧ m = docMat c .clearn g n := by
  let W := docMat c .clearn g n
  have aux : ∀ (rest done : List (Nat × Nat)) (m : Mat), (∀ x ∈ rest, x ∈ allPairs n) →
      (∀ a b, m a b = W a b ∨ (m a b = 0 ∧ (a, b) ∉ done ∧ (b, a) ∉ done)) →
      ∃ m', rest.foldl (clEncStep c g) (some m) = some m' ∧
        ∀ a b, m' a b = W a b ∨ (m' a b = 0 ∧ (a, b) ∉ done ++ rest ∧ (b, a) ∉ done ++ rest) := by
    intro rest
    induction rest with
    | nil => intro done m _ h; exact ⟨m, rfl, by simpa using h⟩
    | cons x rest ih =>
      intro done m hmem hinv
      obtain ⟨u, v⟩ := x
      obtain ⟨hu, hv⟩ := mem_allPairs.1 (hmem _ List.mem_cons_self)
      have key : ∃ m1, clEncStep c g (some m) (u, v) = some m1 ∧
          ∀ a b, m1 a b = W a b ∨ (m1 a b = 0 ∧ (a, b) ∉ done ++ [(u, v)] ∧ (b, a) ∉ done ++ [(u, v)]) := by
        by_cases huv : u = v
        · subst huv
          refine ⟨m, by simp [clEncStep], ?_⟩
          intro a b
          rcases hinv a b with h | ⟨h0, h1, h2⟩
          · exact Or.inl h
          · by_cases e : a = u ∧ b = u
            · obtain ⟨rfl, rfl⟩ := e
              left; rw [h0]; simp [W, docMat]
            · right
              refine ⟨h0, ?_, ?_⟩
              · simp [List.mem_append, h1, e]
              · have e' : ¬(b = u ∧ a = u) := fun x => e ⟨x.2, x.1⟩
                simp [List.mem_append, h2, e']
        · have hvu : v ≠ u := fun e => huv e.symm
          have hcell := hg.cells hu hv huv
          have hmask : bitsC c g u v = bits g u v := table_mask c (mem_allCls c) .clearn (mem_fmts _) _ hcell
          have upd : ∀ (m1 : Mat), (∀ a b, m1 a b = if a = u ∧ b = v then W u v else if a = v ∧ b = u then W v u else m a b) →
              ∀ a b, m1 a b = W a b ∨ (m1 a b = 0 ∧ (a, b) ∉ done ++ [(u, v)] ∧ (b, a) ∉ done ++ [(u, v)]) := by
            intro m1 hm1 a b
            rw [hm1 a b]
            by_cases c1 : a = u ∧ b = v
            · obtain ⟨rfl, rfl⟩ := c1; simp
            · by_cases c2 : a = v ∧ b = u
              · obtain ⟨rfl, rfl⟩ := c2; simp [c1]
              · simp only [c1, c2, if_false]
                rcases hinv a b with h | ⟨h0, h1, h2⟩
                · exact Or.inl h
                · right
                  have c2' : ¬(b = u ∧ a = v) := fun x => c2 ⟨x.2, x.1⟩
                  exact ⟨h0, by simp [List.mem_append, h1, c1], by simp [List.mem_append, h2, c2']⟩
          rcases List.mem_cons.1 hcell with he | he
          · -- non-adjacent pair: nothing is written, the documented cells are zero
            have hp : bits g u v = PB.empty := by injection he with h1 h2
            have hW1 : W u v = 0 := by injection he with h1 h2; injection h2 with h3 h4
            have hW2 : W v u = 0 := by injection he with h1 h2; injection h2 with h3 h4
            refine ⟨m, by simp [clEncStep, huv, hmask, hp, adjacent_empty], ?_⟩
            apply upd m
            intro a b
            by_cases c1 : a = u ∧ b = v
            · obtain ⟨rfl, rfl⟩ := c1
              rcases hinv a b with h | ⟨h0, _, _⟩
              · simp [h]
              · simp [h0, hW1]
            · by_cases c2 : a = v ∧ b = u
              · obtain ⟨rfl, rfl⟩ := c2
                rcases hinv a b with h | ⟨h0, _, _⟩
                · simp [c1, h]
                · simp [c1, h0, hW2]
              · simp [c1, c2]
          · have henc := clEncPair_table c (mem_allCls c) _ he
            have hadj := clEncPair_adjacent c (mem_allCls c) _ he
            have hmk : (bits g u v).mask c = bits g u v := hmask
            simp only [hmk] at henc hadj
            refine ⟨(m.set u v (W u v)).set v u (W v u), ?_, ?_⟩
            · simp [clEncStep, huv, hmask, hadj, henc, W]
            · apply upd
              intro a b
              simp only [Mat.set_apply]
              by_cases c1 : a = u ∧ b = v
              · obtain ⟨rfl, rfl⟩ := c1
                have : ¬(a = b ∧ b = a) := fun e => huv e.1
                simp [this]
              · by_cases c2 : a = v ∧ b = u
                · obtain ⟨rfl, rfl⟩ := c2
                  have : ¬(a = b ∧ b = a) := fun e => huv e.2
                  simp [this]
                · simp [c1, c2]
      obtain ⟨m1, hm1, hinv1⟩ := key
      obtain ⟨m2, hm2, hinv2⟩ := ih (done ++ [(u, v)]) m1 (fun y hy => hmem y (List.mem_cons_of_mem _ hy)) hinv1
      exact ⟨m2, by rw [List.foldl_cons, hm1, hm2], by simpa [List.append_assoc] using hinv2⟩
  obtain ⟨m, hm, hfin⟩ := aux (allPairs n) [] Mat.zero (fun _ h => h) (fun a b => Or.inr ⟨rfl, by simp, by simp⟩)
  refine ⟨m, hm, ?_⟩
  funext a b
  rcases hfin a b with h | ⟨h0, h1, _⟩
  · exact h
  · rw [h0]
    by_cases hr : a < n ∧ b < n
    · exact absurd (by simpa using mem_allPairs.2 hr) h1
    · simp only [docMat]; rw [if_neg (fun e => hr ⟨e.1, e.2.1⟩)]

end C14
