"""C14: export followed by import reproduces the graph in every format (numpy enumeration,
causal-learn endpoint matrix, pcalg adjacency matrix, Tetrad text file, ts lag array).

Deciding oracle = the Lean side:
  * `c14spec`   : documented code table (lean/Pw/C14/Spec.lean `table`) -> domain flag + the matrix the
                  documentation prescribes for the graph,
  * `c14specdec`: well-formedness flag + the graph the documentation assigns to a matrix,
  * `c14enc` / `c14dec` / `c14tet` / `c14tetdec` / `c14tsenc` / `c14tsdec`: the compiled models of the
    code (proved equal to the specification on the domain, lean/Pw/C14/*.lean).
The implementation is run in-process on the same inputs: export(G) must equal the documented matrix,
import(export(G)) and import(documented matrix) must equal G (same class, nodes, edges of every
type), export(import(M)) must equal M.  Tetrad goes through a real file in a mkdtemp directory."""
import contextlib
import io
import itertools
import os
import shutil
import tempfile

from . import common as C
from .shrink import shrink_case

PID = "C14"
LAYERS = ("D", "B", "U", "C")
CLS_STATES = {
    "admg": [(), ("D>",), ("D<",), ("B",), ("U",), ("D>", "B"), ("D<", "B"), ("D>", "U"), ("D<", "U"), ("B", "U")],
    "cpdag": [(), ("D>",), ("D<",), ("U",)],
    "pag": [(), ("D>",), ("D<",), ("B",), ("U",), ("C>", "C<"), ("D>", "C<"), ("D<", "C>"), ("C>",), ("C<",)],
}
STATE_NAME = {(): "none", ("D>",): "->", ("D<",): "<-", ("B",): "<->", ("U",): "--", ("C>", "C<"): "o-o",
              ("D>", "C<"): "o->", ("D<", "C>"): "<-o", ("C>",): "--o", ("C<",): "o--", ("D>", "B"): "->+<->",
              ("D<", "B"): "<-+<->", ("D>", "U"): "->+--", ("D<", "U"): "<-+--", ("B", "U"): "<->+--"}
FMTS = {"admg": ["numpy", "clearn", "tetrad"], "cpdag": ["numpy", "clearn", "pcalg", "tetrad"],
        "pag": ["numpy", "clearn", "pcalg", "tetrad"]}
LAYER_NAME = {"D": "directed", "B": "bidirected", "U": "undirected", "C": "circle"}
CLS_LAYERS = {"admg": "DBU", "cpdag": "DU", "pag": "DBUC"}


# ----------------------------------------------------------------------------- encodings
def relabel(g):
    """edges in terms of matrix indices (= position in insertion order)"""
    pos = {v: i for i, v in enumerate(C.g_nodes(g))}
    return {k: [[pos[a], pos[b]] for a, b in g.get(k, [])] for k in LAYERS}


def gline(g):
    r = relabel(g)
    return "n=%d D=%s B=%s U=%s C=%s" % (g["n"], C.fmt_pairs(r["D"]), C.fmt_pairs(r["B"]), C.fmt_pairs(r["U"]),
                                         C.fmt_pairs(r["C"]))


def gcanon(g):
    r = relabel(g)
    return C.canon_graph(range(g["n"]), r["D"], r["B"], r["U"], r["C"])


def mat_str(M):
    rows = []
    for row in M:
        cells = []
        for x in row:
            xf = float(x)
            cells.append(str(int(xf)) if xf == int(xf) else repr(xf))
        rows.append(",".join(cells))
    return ";".join(rows)


def mat_parse(s):
    return [[int(x) for x in r.split(",")] for r in s.split(";")] if s else []


def pair_hist(case):
    """names of the pair configurations of a graph case"""
    g = case["g"]
    st = {}
    for k in LAYERS:
        for a, b in g.get(k, []):
            key = (min(a, b), max(a, b))
            if k in ("B", "U"):
                item = k
            else:
                item = k + (">" if a < b else "<")
            st.setdefault(key, set()).add(item)
    order = ["D>", "D<", "B", "U", "C>", "C<"]
    return [STATE_NAME.get(tuple(x for x in order if x in s), "other") for s in st.values()]


@contextlib.contextmanager
def quiet():
    with contextlib.redirect_stdout(io.StringIO()):
        yield


# ----------------------------------------------------------------------------- implementation side
def _classes():
    import pywhy_graphs
    return {"admg": pywhy_graphs.ADMG, "cpdag": pywhy_graphs.CPDAG, "pag": pywhy_graphs.PAG}


def build(case):
    g = case["g"]
    lab = C.Labels(case.get("fam", "str"))
    G = _classes()[case["cls"]]()
    labels = [lab(v) for v in C.g_nodes(g)]
    for l in labels:
        G.add_node(l)
    for k in LAYERS:
        for a, b in g.get(k, []):
            G.add_edge(lab(a), lab(b), edge_type=LAYER_NAME[k])
    return G, labels


def canon_impl(H, labels):
    """canonical string of an implementation graph in terms of matrix indices; '?' if foreign nodes"""
    pos = {l: i for i, l in enumerate(labels)}
    try:
        nodes = [pos[v] for v in H.nodes]
        lay = {}
        for k, nm in LAYER_NAME.items():
            lay[k] = [(pos[a], pos[b]) for a, b in H.get_graphs()[nm].edges()] if nm in H.get_graphs() else []
    except KeyError as e:
        return "foreign-node:%r" % (e.args[0],)
    return C.canon_graph(nodes, lay["D"], lay["B"], lay["U"], lay["C"])


def _export(fmt, G):
    from pywhy_graphs import export as E
    if fmt == "numpy":
        return E.graph_to_numpy(G)
    if fmt == "clearn":
        arr, idx = E.graph_to_clearn(G)
        if list(idx) != list(G.nodes):
            raise AssertionError("arr_idx differs from G.nodes")
        return arr
    if fmt == "clearn-arr":
        arr, idx = E.graph_to_arr(G, format="causal-learn")
        if list(idx) != list(G.nodes):
            raise AssertionError("arr_idx differs from G.nodes")
        return arr
    if fmt == "pcalg":
        return E.graph_to_pcalg(G)
    raise ValueError(fmt)


def _import(fmt, M, labels, cls, dtype, by_class):
    import numpy as np
    from pywhy_graphs import export as E
    arr = np.array(M, dtype=float if dtype == "float" else int).reshape(len(labels), len(labels))
    if (int(arr.sum()) + len(labels)) % 3 == 0:
        arr = np.asfortranarray(arr)        # same entries, column-major memory layout (a matrix is a matrix)
    elif (int(arr.sum()) + len(labels)) % 3 == 1 and len(labels):
        big = np.zeros((2 * len(labels), 2 * len(labels)), dtype=arr.dtype)
        big[::2, ::2] = arr
        arr = big[::2, ::2]                 # a strided view with the same entries
    if fmt == "numpy":
        return E.numpy_to_graph(arr, list(labels), _classes()[cls] if by_class else cls)
    if fmt in ("clearn", "clearn-arr"):
        return E.clearn_to_graph(arr, list(labels), cls)
    if fmt == "pcalg":
        return E.pcalg_to_graph(arr, list(labels), cls)
    raise ValueError(fmt)


def _guard(fn):
    try:
        with quiet():
            return fn()
    except Exception as e:  # any exception escaping the public function
        return "err:" + type(e).__name__


def impl_matrix(case):
    """export / import of one graph case through a matrix format"""
    cls, fmt = case["cls"], case["fmt"]
    efmt = "clearn-arr" if (fmt == "clearn" and case.get("via_arr")) else fmt
    G, labels = build(case)
    if C.warm_decide({k_: case[k_] for k_ in ("g", "cls", "fmt") if k_ in case}, 3) and len(labels) >= 2:
        # the same graph object is exported, rebuilt in place with its nodes in another order, exported
        # again, and rebuilt in place in the case's order: per-object state from the earlier exports
        # (node -> row tables and the like) must not leak into the export that is judged
        try:
            g_ = case["g"]
            lab_ = C.Labels(case.get("fam", "str"))
            for order in (list(reversed(labels)), list(labels)):
                G.remove_nodes_from(list(G.nodes))
                for l_ in order:
                    G.add_node(l_)
                for k_ in LAYERS:
                    for a_, b_ in g_.get(k_, []):
                        G.add_edge(lab_(a_), lab_(b_), edge_type=LAYER_NAME[k_])
                if order is not labels and order != labels:
                    _guard(lambda: _export(efmt, G))
        except Exception:
            G, labels = build(case)
    cname = type(G).__name__
    res = {}
    before = C.snapshot(G)
    enc = _guard(lambda: _export(efmt, G))
    res["mutated"] = before != C.snapshot(G)
    if not isinstance(enc, str) and C.warm_decide({"g": case["g"], "cls": cls, "fmt": fmt, "k": "sub"}, 4):
        # an instance of a (trivial) subclass with the same nodes and edges is the same graph: same matrix
        try:
            Sub = type("Study" + type(G).__name__, (type(G),), {})
            T = Sub()
            T.add_nodes_from(G.nodes)
            for et_, gr_ in G.get_graphs().items():
                T.add_edges_from(list(gr_.edges), et_)
            enc2 = _guard(lambda: _export(efmt, T))
            if isinstance(enc2, str) or enc2.tolist() != enc.tolist():
                res["subclass"] = "export of a subclass instance with the same edges gives %s, of the %s itself %s" % (
                    enc2 if isinstance(enc2, str) else mat_str(enc2.tolist()), type(G).__name__, mat_str(enc.tolist()))
        except Exception:
            pass
    dtype, by_class = case.get("dtype", "int"), bool(case.get("by_class"))
    if isinstance(enc, str):
        res["enc"] = enc
    else:
        res["enc"] = mat_str(enc.tolist())
        H = _guard(lambda: _import(fmt, enc, labels, cls, "float" if enc.dtype.kind == "f" else "int", by_class))
        res["rt"] = H if isinstance(H, str) else canon_impl(H, labels)
        res["rt_cls"] = None if isinstance(H, str) else type(H).__name__
    if efmt == "clearn-arr" and len(labels) >= 2 and not isinstance(enc, str):
        # the exporter's optional node_order: rows / columns and the returned node list follow the requested
        # order, and reading that matrix back with that list gives the same graph
        from pywhy_graphs import export as E
        k_ = 1 + (len(case.get("M") or "") % (len(labels) - 1))
        order = list(labels[k_:]) + list(labels[:k_])          # a rotation (not an involution for n >= 3)
        if len(labels) >= 3:
            order[0], order[1] = order[1], order[0]
        r_ = _guard(lambda: E.graph_to_arr(G, format="causal-learn", node_order=list(order)))
        if isinstance(r_, str):
            res["order"] = "graph_to_arr(node_order=...) " + r_
        else:
            arr2, idx2 = r_
            if list(idx2) != order:
                res["order"] = "returned node list %r is not the requested order %r" % (list(idx2), order)
            else:
                H3 = _guard(lambda: E.clearn_to_graph(arr2, list(idx2), cls))
                c3 = H3 if isinstance(H3, str) else canon_impl(H3, labels)
                if c3 != res.get("rt"):
                    res["order"] = "round trip with node_order gives %s, without %s" % (c3, res.get("rt"))
    if case.get("M") is not None:
        H2 = _guard(lambda: _import(fmt, mat_parse(case["M"]), labels, cls, dtype, by_class))
        res["dec"] = H2 if isinstance(H2, str) else canon_impl(H2, labels)
        res["dec_cls"] = None if isinstance(H2, str) else type(H2).__name__
        if not isinstance(H2, str):
            re = _guard(lambda: _export(efmt, H2))
            res["reenc"] = re if isinstance(re, str) else mat_str(re.tolist())
    res["cls_name"] = cname
    return res


def flip_edge(s):
    return s[::-1].translate(str.maketrans("<>", "><"))


def parse_tetrad(txt):
    """tokens of a Tetrad file: (node names or None, [(name1, edge string, name2)], problems)"""
    nodes, edges, bad = None, [], []
    lines = txt.split("\n")
    mode = None
    for ln in lines:
        s = ln.strip()
        if s == "Graph Nodes:":
            mode = "nodes"
            continue
        if s == "Graph Edges:":
            mode = "edges"
            continue
        if not s:
            continue
        if mode == "nodes" and nodes is None:
            nodes = s.split(";")
        elif mode == "edges":
            w = s.split()
            if len(w) != 4 or not w[0].endswith("."):
                bad.append(s)
            else:
                edges.append((w[1], w[2], w[3]))
        else:
            bad.append(s)
    return nodes, edges, bad


def impl_tetrad(case):
    from pywhy_graphs import export as E
    cls = case["cls"]
    G, labels = build(case)
    d = case["tmp"]
    fn = os.path.join(d, "g_%d_%d.txt" % (os.getpid(), case.get("i", 0)))
    res = {}
    before = C.snapshot(G)
    r = _guard(lambda: E.graph_to_tetrad(G, fn))
    res["mutated"] = before != C.snapshot(G)
    pos = {l: i for i, l in enumerate(labels)}
    if isinstance(r, str) and r.startswith("err:"):
        res["enc"] = r
    else:
        txt = open(fn).read()
        res["text"] = txt
        nodes, edges, bad = parse_tetrad(txt)
        res["file_nodes_ok"] = nodes is not None and sorted(nodes) == sorted(labels) if labels else nodes in (None, [], [""])
        res["file_bad"] = bad
        try:
            res["lines"] = ";".join("%d:%s:%d" % (pos[a], e, pos[b]) for a, e, b in edges)
        except KeyError as e:
            res["lines"] = None
            res["file_bad"] = bad + ["unknown node %r" % (e.args[0],)]
        H = _guard(lambda: E.tetrad_to_graph(fn, cls))   # the file just written
        res["rt"] = H if isinstance(H, str) else canon_impl(H, labels)
        res["rt_cls"] = None if isinstance(H, str) else type(H).__name__
    # reader on a well-formed file written by the harness (lines given by the case)
    if case.get("L") is not None:
        fn2 = fn + ".in"
        with open(fn2, "w") as f:
            f.write("Graph Nodes:\n" + ";".join(labels) + "\n\nGraph Edges:\n")
            for k, ln in enumerate([x for x in case["L"].split(";") if x]):
                a, e, b = ln.split(":")
                f.write("%d. %s %s %s\n" % (k + 1, labels[int(a)], e, labels[int(b)]))
        H2 = _guard(lambda: E.tetrad_to_graph(fn2, _classes()[cls] if case.get("by_class") else cls))
        res["dec"] = H2 if isinstance(H2, str) else canon_impl(H2, labels)
        res["dec_cls"] = None if isinstance(H2, str) else type(H2).__name__
        os.unlink(fn2)
    if os.path.exists(fn):
        os.unlink(fn)
    res["cls_name"] = type(G).__name__
    return res


def impl(case):
    if case["kind"] == "ts":
        return impl_ts(case)
    return impl_tetrad(case) if case["fmt"] == "tetrad" else impl_matrix(case)


# ----------------------------------------------------------------------------- time series
def ts_key(directed, e):
    (x, l), (y, m) = e
    if not directed and not (x < y or (x == y and l <= m)):
        (x, l), (y, m) = (y, m), (x, l)
    return ((x * 1000 + l) * 1000 + y) * 1000 + m


def impl_ts(case):
    """case: dir, nv, L, adds=[[x,l,y,m],…] (add_edge((x,-l),(y,-m))), order (variable order), fam, A (entries)"""
    import numpy as np
    from pywhy_graphs.classes.timeseries import StationaryTimeSeriesDiGraph, StationaryTimeSeriesGraph
    from pywhy_graphs.classes.timeseries.conversion import numpy_to_tsgraph, tsgraph_to_numpy
    cls = StationaryTimeSeriesDiGraph if case["dir"] else StationaryTimeSeriesGraph
    lab = C.Labels(case.get("fam", "str"))
    nv, L = case["nv"], case["L"]
    order = case.get("order", list(range(nv)))
    var_order = [lab(v) for v in order]
    pos = {lab(v): i for i, v in enumerate(order)}
    res = {}

    def edges_of(H):
        return sorted(set(ts_key(case["dir"], ((pos[a[0]], -a[1]), (pos[b[0]], -b[1]))) for a, b in H.edges()))

    def nodes_of(H):
        return sorted((pos[a[0]], -a[1]) for a in H.nodes)

    def entries(arr):
        out = []
        for i in range(arr.shape[0]):
            for j in range(arr.shape[1]):
                for l in range(arr.shape[2]):
                    if arr[i, j, l] != 0:
                        v = float(arr[i, j, l])
                        out.append("%d.%d.%d.%s" % (i, j, l, int(v) if v == int(v) else v))
        return ",".join(out)
    try:
        with quiet():
            G = cls(max_lag=L)
            G.add_variables_from([lab(v) for v in range(nv)])
            for x, l, y, m in case["adds"]:
                G.add_edge((lab(x), -l), (lab(y), -m))
    except Exception as e:
        return {"build": "err:" + type(e).__name__}
    E0 = edges_of(G)
    res["edges"] = E0
    res["edge_list"] = sorted(set(((pos[a[0]], -a[1]), (pos[b[0]], -b[1])) for a, b in G.edges()))
    res["nodes"] = nodes_of(G)
    before = C.snapshot(G)
    arr = _guard(lambda: tsgraph_to_numpy(G, var_order=list(var_order)))
    res["mutated"] = before != C.snapshot(G)
    if isinstance(arr, str):
        res["enc"] = arr
    else:
        res["shape"] = list(arr.shape)
        res["enc"] = entries(arr)
        H = _guard(lambda: numpy_to_tsgraph(arr, var_order=list(var_order), create_using=cls))
        if isinstance(H, str):
            res["rt"] = H
        else:
            try:
                res["rt"] = edges_of(H)
                res["rt_nodes"] = nodes_of(H)
                res["rt_cls"] = type(H).__name__
                res["rt_L"] = H.max_lag
            except (KeyError, TypeError, IndexError) as e:     # the imported graph has nodes that are not G's
                res["rt"] = "foreign-node:%r" % (e.args[0] if e.args else e,)
    if case.get("A") is not None:
        A = np.zeros((nv, nv, L + 1))
        for ent in [x for x in case["A"].split(",") if x]:
            i, j, l, v = ent.split(".")
            A[int(i), int(j), int(l)] = int(v)
        H2 = _guard(lambda: numpy_to_tsgraph(A, var_order=list(var_order), create_using=cls))
        if isinstance(H2, str):
            res["dec"] = H2
        else:
            try:
                res["dec"] = edges_of(H2)
            except (KeyError, TypeError, IndexError) as e:
                res["dec"] = "foreign-node:%r" % (e.args[0] if e.args else e,)
            re = _guard(lambda: tsgraph_to_numpy(H2, var_order=list(var_order)))
            res["reenc"] = re if isinstance(re, str) else entries(re)
    res["cls_name"] = cls.__name__
    return res


def ts_shift_closed(case, edge_list):
    """stationarity of the built graph (precondition of the ts clause): every edge has lag(from) >=
    lag(to) and all its homologous copies inside the window"""
    L = case["L"]
    es = set(edge_list)
    if not case["dir"]:
        es |= set((b, a) for a, b in es)
    for (x, l), (y, m) in es:
        if l < m:
            if case["dir"]:
                return False
            continue
        d = l - m
        for k in range(0, L - d + 1):
            if ((x, d + k), (y, k)) not in es:
                return False
    return True


# ----------------------------------------------------------------------------- lean requests
def lines1(case):
    if case["kind"] == "ts":
        return []
    g = case["g"]
    if case["fmt"] == "tetrad":
        return ["c14tet cls=%s %s" % (case["cls"], gline(g))]
    return ["c14spec fmt=%s cls=%s %s" % (case["fmt"], case["cls"], gline(g)),
            "c14enc fmt=%s cls=%s %s" % (case["fmt"], case["cls"], gline(g))]


def lines2(case, got):
    if case["kind"] == "ts":
        ls = []
        if "edge_list" in got:
            E = ",".join("%d.%d.%d.%d" % (a[0], a[1], b[0], b[1]) for a, b in got["edge_list"])
            ls.append("c14tsenc dir=%d nv=%d L=%d E=%s" % (case["dir"], case["nv"], case["L"], E))
            if not str(got.get("enc", "err:")).startswith("err:"):
                ls.append("c14tsdec dir=%d nv=%d L=%d A=%s" % (case["dir"], case["nv"], case["L"], got["enc"]))
        if case.get("A") is not None:
            ls.append("c14tsdec dir=%d nv=%d L=%d A=%s" % (case["dir"], case["nv"], case["L"], case["A"]))
        return ls
    n = case["g"]["n"]
    if case["fmt"] == "tetrad":
        ls = []
        if got.get("lines") is not None:
            ls.append("c14tetdec cls=%s n=%d L=%s" % (case["cls"], n, got["lines"]))
        if case.get("L") is not None:
            ls.append("c14tetdec cls=%s n=%d L=%s" % (case["cls"], n, case["L"]))
        return ls
    if case.get("M") is None:
        return []
    return ["c14specdec fmt=%s cls=%s n=%d M=%s" % (case["fmt"], case["cls"], n, case["M"]),
            "c14dec fmt=%s cls=%s n=%d M=%s" % (case["fmt"], case["cls"], n, case["M"])]


def prepare(case, a1, rng_bits=0):
    """phase 1 answers -> the case gets the documented matrix / a well-formed file to import"""
    if case["kind"] == "ts":
        return
    if case["fmt"] == "tetrad":
        dom, _, lines = a1[0].partition(" ")
        case["dom"] = dom == "T"
        ls = [x for x in lines.split(";") if x]
        # harness-written well-formed file: model lines, some flipped, rotated order
        out = []
        for k, ln in enumerate(ls):
            a, e, b = ln.split(":")
            if (rng_bits >> (k % 30)) & 1:
                a, e, b = b, flip_edge(e), a
            out.append("%s:%s:%s" % (a, e, b))
        if out:
            r = rng_bits % len(out)
            out = out[r:] + out[:r]
        case["L"] = ";".join(out)
        case["model_lines"] = lines
        return
    dom, _, M = a1[0].partition(" ")
    case["dom"] = dom == "T"
    case["M"] = M
    case["model_enc"] = a1[1]


def judge(case, got, a2):
    """list of (kind, detail) violations, list of correspondence notes"""
    viol, corr = [], []
    if case["kind"] == "ts":
        return judge_ts(case, got, a2)
    if not case.get("dom"):
        return [], [("generator", "case outside the documented domain")]
    want = gcanon(case["g"])
    wcls = {"admg": "ADMG", "cpdag": "CPDAG", "pag": "PAG"}[case["cls"]]
    if got.get("mutated"):
        viol.append(("mutation", "export changed the graph"))
    if got.get("order"):
        viol.append(("node_order", got["order"]))
    if got.get("subclass"):
        viol.append(("subclass", got["subclass"]))
    if case["fmt"] == "tetrad":
        k = 0
        if str(got.get("enc", "")).startswith("err:"):
            viol.append(("export", "graph_to_tetrad raised %s" % got["enc"]))
        else:
            if not got.get("file_nodes_ok"):
                viol.append(("export", "node line of the written file does not list the nodes of G"))
            if got.get("file_bad"):
                viol.append(("export", "malformed lines in the written file: %r" % (got["file_bad"][:3],)))
            elif got.get("lines") is not None:
                if a2[k] != "ok " + want:
                    viol.append(("export", "written file denotes %s, graph is %s" % (a2[k], want)))
            if got.get("lines") is not None:
                k += 1
            if got.get("rt") != want or got.get("rt_cls") != wcls:
                viol.append(("roundtrip", "tetrad_to_graph(file written by graph_to_tetrad) = %s %s, graph is %s %s"
                             % (got.get("rt_cls"), got.get("rt"), wcls, want)))
        if case.get("L") is not None:
            if a2[k] != "ok " + want:
                corr.append(("model", "model reader on the harness file gives %s, graph is %s" % (a2[k], want)))
            elif got.get("dec") != want or got.get("dec_cls") != wcls:
                viol.append(("import", "tetrad_to_graph(well-formed file %s) = %s %s, file denotes %s %s"
                             % (case["L"], got.get("dec_cls"), got.get("dec"), wcls, want)))
        return viol, corr
    M = case["M"]
    if case["model_enc"] != "ok " + M:
        corr.append(("model", "model export %s differs from the documented matrix %s" % (case["model_enc"], M)))
    wf, _, sg = a2[0].partition(" ")
    if wf != "T" or sg != want or a2[1] != "ok " + want:
        corr.append(("model", "spec/model decoding of the documented matrix: %s / %s, graph is %s" % (a2[0], a2[1], want)))
    if got.get("enc") != M:
        viol.append(("export", "export = %s, documented codes = %s" % (got.get("enc"), M)))
    if not str(got.get("enc", "err:")).startswith("err:"):
        if got.get("rt") != want or got.get("rt_cls") != wcls:
            viol.append(("roundtrip", "import(export(G)) = %s %s, G = %s %s" % (got.get("rt_cls"), got.get("rt"), wcls, want)))
    if got.get("dec") != want or got.get("dec_cls") != wcls:
        viol.append(("import", "import(%s) = %s %s, documented meaning %s %s" % (M, got.get("dec_cls"), got.get("dec"), wcls, want)))
    elif got.get("reenc") != M:
        viol.append(("reexport", "export(import(M)) = %s, M = %s" % (got.get("reenc"), M)))
    return viol, corr


def judge_ts(case, got, a2):
    viol, corr = [], []
    if "build" in got:
        return [], [("precondition", "graph construction raised %s" % got["build"])]
    if not ts_shift_closed(case, got["edge_list"]):
        return [], [("precondition", "built graph is not stationary (not C14's concern)")]
    nodes_want = sorted((v, l) for v in range(case["nv"]) for l in range(case["L"] + 1))
    if got["nodes"] != nodes_want:
        return [], [("precondition", "built graph lacks nodes")]
    if got.get("mutated"):
        viol.append(("mutation", "tsgraph_to_numpy changed the graph"))
    k = 0
    want_arr = a2[k]
    k += 1
    if str(got.get("enc", "")).startswith("err:"):
        viol.append(("export", "tsgraph_to_numpy raised %s" % got["enc"]))
    else:
        if got["enc"] != want_arr or got["shape"] != [case["nv"], case["nv"], case["L"] + 1]:
            viol.append(("export", "lag array entries %s shape %s, documented %s" % (got["enc"], got.get("shape"), want_arr)))
        model_dec = a2[k]
        k += 1
        want_edges = ",".join(map(str, got["edges"]))
        if model_dec != want_edges:
            corr.append(("model", "model numpy_to_tsgraph(arr) = %s, graph = %s" % (model_dec, want_edges)))
        if isinstance(got.get("rt"), str):
            viol.append(("roundtrip", "numpy_to_tsgraph raised %s" % got["rt"]))
        elif (got["rt"] != got["edges"] or got.get("rt_nodes") != got["nodes"] or got.get("rt_cls") != got["cls_name"]
              or got.get("rt_L") != case["L"]):
            viol.append(("roundtrip", "numpy_to_tsgraph(tsgraph_to_numpy(G)): edges %s nodes %s class %s max_lag %s; "
                         "G: edges %s nodes %s" % (got["rt"], got.get("rt_nodes"), got.get("rt_cls"), got.get("rt_L"),
                                                   got["edges"], got["nodes"])))
    if case.get("A") is not None:
        want = a2[k]
        dec = got.get("dec")
        if isinstance(dec, str):
            viol.append(("import", "numpy_to_tsgraph(well-formed array) raised %s" % dec))
        elif ",".join(map(str, dec)) != want:
            viol.append(("import", "numpy_to_tsgraph(%s) edges %s, model %s" % (case["A"], dec, want)))
        elif got.get("reenc") != case["A"]:
            viol.append(("reexport", "tsgraph_to_numpy(numpy_to_tsgraph(A)) = %s, A = %s" % (got.get("reenc"), case["A"])))
    return viol, corr


def evaluate(case, ask):
    """single-case pipeline (shrinking, replay).  ask: line -> answer"""
    case = dict(case)
    a1 = [ask(l) for l in lines1(case)]
    prepare(case, a1, case.get("rb", 0))
    got = impl(case)
    a2 = [ask(l) for l in lines2(case, got)]
    viol, corr = judge(case, got, a2)
    return case, got, viol, corr


# ----------------------------------------------------------------------------- generators
def enum_class_graphs(cls, n):
    for g in C.enum_graphs(n, CLS_STATES[cls]):
        if C.is_acyclic(n, g["D"]):
            yield g


def rand_class_graph(rng, cls, n):
    perm = list(range(n))
    rng.shuffle(perm)
    pos = {v: i for i, v in enumerate(perm)}
    dens = rng.choice((0.25, 0.5, 0.8, 1.0))
    states = CLS_STATES[cls][1:]
    g = C.g_new(n)
    for a, b in C.all_pairs(n):
        if rng.random() > dens:
            continue
        st = rng.choice(states)
        for item in st:
            if item in ("D>", "D<"):
                # keep the directed layer acyclic: orient along the random order, move the circle with it
                fwd = pos[a] < pos[b]
                u, v = (a, b) if fwd else (b, a)
                g["D"].append([u, v])
            elif item in ("C>", "C<") and len(st) == 2 and st[0] in ("D>", "D<"):
                fwd = pos[a] < pos[b]
                u, v = (a, b) if fwd else (b, a)
                g["C"].append([v, u])          # u o-> v : circle mark at u
            else:
                C.add_pair_state(g, a, b, (item,))
    return g


def gen_graph_cases(ctx):
    tier, rng = ctx["tier"], ctx["rng"]
    fams = ("str", "int", "tuple", "bigint")
    i = 0
    for cls in ("admg", "cpdag", "pag"):
        for n in (1, 2, 3):
            graphs = list(enum_class_graphs(cls, n))
            perms = list(itertools.permutations(range(n)))
            for g in graphs:
                if n < 3 or tier == "thorough":
                    use = perms
                else:
                    use = [perms[rng.randrange(len(perms))]]
                for pi, p in enumerate(use):
                    fmts = FMTS[cls]
                    if n == 3 and tier != "thorough":      # quick: two formats per 3-node graph, rotating
                        r = rng.randrange(len(fmts))
                        fmts = [fmts[r], fmts[(r + 1) % len(fmts)]]
                    for fmt in fmts:
                        i += 1
                        h = dict(g, N=list(p))
                        yield {"kind": "graph", "cls": cls, "fmt": fmt, "g": h, "src": "exh%d" % n,
                               "fam": "str" if fmt == "tetrad" else fams[i % len(fams)],
                               "dtype": ("int", "float")[i % 2], "by_class": i % 3 == 0, "via_arr": i % 5 == 0,
                               "rb": rng.getrandbits(30), "i": i}
    N = 2000 if tier == "quick" else 40000
    for k in range(N):
        cls = ("admg", "cpdag", "pag", "pag")[k % 4]
        n = rng.choice((4, 4, 5, 5, 6))
        g = rand_class_graph(rng, cls, n)
        if k % 2 == 0:
            g = C.shuffled_graph(rng, g)
        fmt = FMTS[cls][(k // 4) % len(FMTS[cls])]
        i += 1
        yield {"kind": "graph", "cls": cls, "fmt": fmt, "g": g, "src": "rnd",
               "fam": "str" if fmt == "tetrad" else fams[k % len(fams)], "dtype": ("int", "float")[k % 2],
               "by_class": k % 3 == 0, "via_arr": k % 5 == 0, "rb": rng.getrandbits(30), "i": i}


def gen_ts_cases(ctx):
    tier, rng = ctx["tier"], ctx["rng"]
    i = 0
    # exhaustive: 2 variables, max_lag 1: every set of generating edges into lag 0
    for directed in (1, 0):
        slots = [(x, 1, y, 0) for x in range(2) for y in range(2)] + ([(0, 0, 1, 0), (1, 0, 0, 0)] if directed else [(0, 0, 1, 0)])
        for r in range(len(slots) + 1):
            for sub in itertools.combinations(slots, r):
                if directed and (0, 0, 1, 0) in sub and (1, 0, 0, 0) in sub:
                    continue
                i += 1
                yield ts_case(rng, directed, 2, 1, [list(s) for s in sub], "exh", i)
    N = 400 if tier == "quick" else 6000
    for k in range(N):
        directed = k % 2
        nv, L = rng.choice((1, 2, 3, 3, 4)), rng.choice((1, 2, 2, 3))
        order = list(range(nv))
        rng.shuffle(order)
        rank = {v: r for r, v in enumerate(order)}
        adds = []
        for _ in range(rng.randrange(0, 2 * nv + 2)):
            x, y = rng.randrange(nv), rng.randrange(nv)
            lag = rng.randrange(0, L + 1)
            if lag == 0:
                if x == y:
                    continue
                if rank[x] > rank[y]:
                    x, y = y, x            # contemporaneous part acyclic
            sh = rng.randrange(0, L - lag + 1) if rng.random() < 0.4 else 0   # add through a homologous copy
            adds.append([x, lag + sh, y, sh])
        i += 1
        yield ts_case(rng, directed, nv, L, adds, "rnd", i)


def ts_case(rng, directed, nv, L, adds, src, i):
    order = list(range(nv))
    rng.shuffle(order)
    # a well-formed array of the same shape (0/1 entries; lag-0 slice without diagonal, symmetric for undirected)
    ent = []
    dens = rng.choice((0.15, 0.4))
    lag0 = set()
    for a in range(nv):
        for b in range(nv):
            for l in range(L + 1):
                if l == 0:
                    if a == b:
                        continue
                    if directed:
                        if a < b and rng.random() < dens:
                            lag0.add((a, b))
                    elif a < b and rng.random() < dens:
                        lag0.add((a, b))
                        lag0.add((b, a))
                elif rng.random() < dens:
                    ent.append((a, b, l))
    ent += [(a, b, 0) for a, b in lag0]
    A = ",".join("%d.%d.%d.1" % e for e in sorted(ent))
    return {"kind": "ts", "dir": directed, "nv": nv, "L": L, "adds": adds, "order": order, "A": A, "src": src,
            "fam": ("str", "int", "tuple")[i % 3], "i": i}


# ----------------------------------------------------------------------------- translator tie
def translator_check():
    """regenerate .cache/gen/C14Gen.lean from the current source and re-check it with Lean.
    returns dict(status=checked|untranslatable|failed, detail=…)"""
    import re
    import subprocess
    from translate import codecs
    try:
        txt = codecs.generate(C.REPO)
    except codecs.Untranslatable as e:
        return {"status": "untranslatable", "detail": str(e)}
    except Exception as e:  # unreadable source etc.
        return {"status": "untranslatable", "detail": "%s: %s" % (type(e).__name__, e)}
    d = os.path.join(C.VERIF, ".cache", "gen")
    os.makedirs(d, exist_ok=True)
    path = os.path.join(d, "C14Gen_%d.lean" % os.getpid())
    with open(path, "w") as f:
        f.write(txt)
    with open(os.path.join(d, "C14Gen.lean"), "w") as f:
        f.write(txt)
    r = subprocess.run(["lake", "env", "lean", path], cwd=os.path.join(C.VERIF, "lean"), capture_output=True, text=True)
    os.unlink(path)
    out = (r.stdout + r.stderr).strip()
    n = len(re.findall(r"^theorem ", txt, flags=re.M))
    bad = re.search(r"sorry|admit|native_decide|axiom", txt)
    if r.returncode == 0 and "error" not in out and not bad:
        return {"status": "checked", "detail": "%d generated theorems re-proved by decide" % n, "theorems": n}
    return {"status": "failed", "detail": out[-1500:]}


# ----------------------------------------------------------------------------- run / replay
def _mk_fails(drv):
    def fails(c):
        if c["kind"] != "ts" and not C.is_acyclic(c["g"]["n"], c["g"]["D"]):
            return False
        _, _, viol, _ = evaluate(c, drv.ask)
        return bool(viol)
    return fails


def shrink_ts(case, fails):
    cur = dict(case)
    changed = True
    while changed:
        changed = False
        for k in range(len(cur["adds"])):
            c = dict(cur, adds=cur["adds"][:k] + cur["adds"][k + 1:])
            if fails(c):
                cur, changed = c, True
                break
        if not changed and cur.get("A"):
            ents = cur["A"].split(",")
            for k in range(len(ents)):
                c = dict(cur, A=",".join(ents[:k] + ents[k + 1:]))
                if fails(c):
                    cur, changed = c, True
                    break
    return cur


def stress_tetrad():
    """one LARGE Tetrad round trip (labelled TEST): a 16-node ADMG with 120 directed and 120 bidirected edges writes
    240 edge lines - line numbers with three digits, which graphs on <= 8 nodes never produce"""
    import tempfile
    from pywhy_graphs import ADMG
    from pywhy_graphs import export as E
    n = 16
    G = ADMG()
    names = ["v%d" % i for i in range(n)]
    G.add_nodes_from(names)
    for i in range(n):
        for j in range(i + 1, n):
            G.add_edge(names[i], names[j], "directed")
            G.add_edge(names[i], names[j], "bidirected")
    d = tempfile.mkdtemp(prefix="c14big_", dir=os.path.join(C.VERIF, ".cache") if os.path.isdir(os.path.join(C.VERIF, ".cache")) else None)
    fn = os.path.join(d, "big.txt")
    try:
        with quiet():
            E.graph_to_tetrad(G, fn)
            H = E.tetrad_to_graph(fn, "admg")
        dd = set(H.get_graphs("directed").edges)
        bb = set(frozenset(e) for e in H.get_graphs("bidirected").edges)
        if set(H.nodes) != set(names) or dd != set(G.get_graphs("directed").edges) or bb != set(
                frozenset(e) for e in G.get_graphs("bidirected").edges):
            return "read back %d directed and %d bidirected edges on %d nodes, written 120 / 120 on 16" % (len(dd), len(bb), len(H.nodes))
        return None
    except Exception as e:
        return "raised %s" % type(e).__name__
    finally:
        try:
            if os.path.exists(fn):
                os.unlink(fn)
            os.rmdir(d)
        except Exception:
            pass


def run(ctx):
    ev, out = ctx["ev"], ctx["out"]
    _why = stress_tetrad()
    ev.count("stress:tetrad-240-edge-lines" + (":ok" if _why is None else ":BAD"))
    if _why is not None:
        out.violation({"kind": "stress", "name": "tetrad-240-edge-lines"},
                      {"kind": "tetrad round trip of a large graph", "detail": _why, "input": "see harness/c14.py stress_tetrad()"})
    ev.rule = ("graph cases: every graph of ADMG/CPDAG/PAG on 1-3 nodes over the per-pair configurations the class admits "
               "(ADMG: ->,<-,<->,--, and every two-type combination; CPDAG: ->,<-,--; PAG: ->,<-,<->,--,o-o,o->,<-o,--o,o--; "
               "directed layer acyclic) x insertion orders (all for n<=2, one random order for n=3 in quick, all in thorough) x every format "
               "of the class (quick: two rotating formats per 3-node graph); random graphs n=4..6 with DAG-ordered directed layer, shuffled insertion order, 4 label "
               "families, int/float dtype, class given as string or type. Each case checks export against the documented "
               "matrix (Lean spec table), import(export(G)), import(documented matrix) and re-export; Tetrad through a file "
               "in a mkdtemp directory, plus a harness-written well-formed file with flipped/rotated lines. ts: every set of "
               "generating edges for 2 variables/max_lag 1 plus random stationary (di)graphs with 1-4 variables, max_lag "
               "1-3, and random well-formed lag arrays. non-trivial = the graph (or array) has at least one edge")
    ev.assumptions = ["node labels are hashable and, for Tetrad, strings without whitespace or ';'",
                      "matrix index k is the k-th node in insertion order (arr_idx = list(G.nodes))",
                      "expressible domain = documented code tables written in lean/Pw/C14/Spec.lean",
                      "ts graphs are built through add_edge and are checked to be stationary before use"]
    tmp = tempfile.mkdtemp(prefix="c14_verif_")
    import threading
    tr = {}
    th = threading.Thread(target=lambda: tr.update(translator_check()))
    th.start()
    try:
        corpus = [dict(c) for c in C.load_corpus(PID)]
        cases = corpus + list(gen_graph_cases(ctx)) + list(gen_ts_cases(ctx))
        for c in cases:
            c["tmp"] = tmp
        # phase 1: documented matrices / model files
        l1 = [lines1(c) for c in cases]
        flat = [x for ls in l1 for x in ls]
        ans = C.lean_batch(flat)
        k = 0
        for c, ls in zip(cases, l1):
            prepare(c, ans[k:k + len(ls)], c.get("rb", 0))
            k += len(ls)
        gots = C.pmap(impl, cases, chunksize=64)
        l2 = [lines2(c, g) for c, g in zip(cases, gots)]
        ans2 = C.lean_batch([x for ls in l2 for x in ls])
        k = 0
        bad, corrs = [], []
        for c, g, ls in zip(cases, gots, l2):
            viol, corr = judge(c, g, ans2[k:k + len(ls)])
            k += len(ls)
            slim = {kk: v for kk, v in c.items() if kk not in ("tmp", "model_enc", "model_lines")}
            if c["kind"] == "ts":
                nontriv = bool(g.get("edges")) or bool(c.get("A"))
                ev.count("ts:%s" % ("directed" if c["dir"] else "undirected"))
            else:
                nontriv = any(c["g"][x] for x in LAYERS)
                ev.count("fmt:%s:%s" % (c["cls"], c["fmt"]))
                for nm in pair_hist(c):
                    ev.count("cfg:%s:%s:%s" % (c["cls"], c["fmt"], nm))
            ev.count("src:" + c["src"])
            ev.case(slim, nontrivial=nontriv, sample_every=4000)
            for kind, _ in corr:
                ev.count("note:" + kind)
            if viol:
                bad.append((c, viol))
            if any(kind == "model" for kind, _ in corr):
                corrs.append((slim, corr))
        ev.extra["exhaustive_part"] = "all class graphs on <=3 nodes (acyclic directed layer) x formats; ts: 2 variables, max_lag 1"
        for slim, corr in corrs[:1]:
            out.corr(slim, {"notes": corr})
        if bad:
            kinds = {}
            for c, viol in bad:
                key = "%s:%s:%s" % (c.get("cls", "ts"), c.get("fmt", "ts"), viol[0][0])
                kinds.setdefault(key, []).append((c, viol))
            ev.extra["violation_kinds"] = {k: len(v) for k, v in kinds.items()}
            drv = C.Driver()
            try:
                fails = _mk_fails(drv)
                for key in sorted(kinds):
                    c, viol = min(kinds[key], key=lambda cv: (cv[0].get("g", {}).get("n", cv[0].get("nv", 0)),
                                                               sum(len(cv[0].get("g", {}).get(x, [])) for x in LAYERS)))
                    if c["kind"] == "ts":
                        small = shrink_ts(c, fails)
                    else:
                        small = shrink_case(c, fails, setkeys=(), optional_sets=())
                    sc, got, v2, _ = evaluate(small, drv.ask)
                    slim = {kk: v for kk, v in sc.items() if kk not in ("tmp", "model_enc", "model_lines")}
                    out.violation(slim, {"kind": key, "violations": v2 or viol, "impl": got,
                                         "disagreeing_cases_of_this_kind": len(kinds[key]),
                                         "all_kinds": ev.extra["violation_kinds"]})
            finally:
                drv.close()
    finally:
        shutil.rmtree(tmp, ignore_errors=True)
        th.join()
    ev.extra["translator"] = tr
    if tr.get("status") == "failed":
        out.proof_breaks.append("generated codec tables (.cache/gen/C14Gen.lean, translated from the current source) "
                                "no longer agree with the committed model / round-trip tables: " + tr.get("detail", "")[-600:])
    elif tr.get("status") == "untranslatable":
        ev.assumptions.append("translator: source outside the fragment (%s); tie to the code rests on the hand model + "
                              "correspondence for this run" % tr.get("detail"))


def replay(ctx, payload):
    case = dict(payload["case"])
    tmp = tempfile.mkdtemp(prefix="c14_verif_")
    case["tmp"] = tmp
    drv = C.Driver()
    try:
        sc, got, viol, corr = evaluate(case, drv.ask)
    finally:
        drv.close()
        shutil.rmtree(tmp, ignore_errors=True)
    print("case:", {k: v for k, v in sc.items() if k != "tmp"})
    print("implementation:", got)
    for v in viol:
        print("violation:", v)
    for v in corr:
        print("note:", v)
    print("REPRODUCED" if viol else "NOT-REPRODUCED")
    return 1 if viol else 0
