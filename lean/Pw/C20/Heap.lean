import Pw.C20.Local

/-!
C20 — the heap level (repaired code): every live object points to a registry cell of its own
(`HInv.sep`), which is what makes a method call on one object invisible in every other one.
-/
namespace C20

def localOf (s : State) (o : Obj) : Local := ⟨o, s.cell o, s.classDoms⟩

/-- heap invariant of the repaired code -/
structure HInv (s : State) : Prop where
  /-- registry references are valid -/
  valid : ∀ (g : Nat) (o : Obj), s.objs[g]? = some o → o.reg < s.regs.length
  /-- no two live objects share a registry cell -/
  sep : ∀ (g h : Nat) (o p : Obj), s.objs[g]? = some o → s.objs[h]? = some p → g ≠ h → o.reg ≠ p.reg
  /-- every object agrees with the cell it points to -/
  linv : ∀ (g : Nat) (o : Obj), s.objs[g]? = some o → LInv (localOf s o)

/-- `LInv` does not look at the reference itself nor at the class-level set -/
theorem LInv.congr' {w w' : Local} (h1 : w'.o.cls = w.o.cls) (h2 : w'.o.nodes = w.o.nodes)
    (h3 : w'.o.aedges = w.o.aedges) (h4 : w'.o.doms = w.o.doms) (hr : w'.r = w.r) (h : LInv w) : LInv w' := by
  obtain ⟨reg, wf⟩ := h
  refine ⟨?_, ?_⟩
  · have : lview w' = lview w := by simp [lview, h1, h2, h3, h4, hr]
    rw [this]; exact reg
  · unfold WFL; rw [h2, h3]; exact wf

theorem LInv.congr {w w' : Local} (ho : w'.o = w.o) (hr : w'.r = w.r) (h : LInv w) : LInv w' :=
  LInv.congr' (by rw [ho]) (by rw [ho]) (by rw [ho]) (by rw [ho]) hr h

theorem viewOf_fixed (s : State) (o : Obj) : viewOf Cfg.fixed s o = lview (localOf s o) := by
  simp [viewOf, lview, localOf, Cfg.fixed]

theorem cell_eq (s : State) (o : Obj) : s.cell o = (s.regs[o.reg]?).getD {} := by
  simp [State.cell, List.getD_eq_getElem?_getD]

/-! ### a method call on object `g` -/

theorem stepAt_none {c : Cfg} {s : State} {g : Nat} (op : LOp) (h : s.objs[g]? = none) :
    stepAt c s g op = (s, .err) := by
  unfold stepAt; rw [h]

theorem stepAt_some {c : Cfg} {s : State} {g : Nat} {o : Obj} (op : LOp) (h : s.objs[g]? = some o) :
    stepAt c s g op =
      ({ regs := s.regs.set o.reg (stepLocal c (localOf s o) op).1.r,
         objs := s.objs.set g (stepLocal c (localOf s o) op).1.o,
         classDoms := (stepLocal c (localOf s o) op).1.cd }, (stepLocal c (localOf s o) op).2) := by
  unfold stepAt; rw [h]; rfl

theorem stepAt_len (c : Cfg) (s : State) (g : Nat) (op : LOp) :
    (stepAt c s g op).1.objs.length = s.objs.length := by
  cases h : s.objs[g]? with
  | none => rw [stepAt_none op h]
  | some o => rw [stepAt_some op h]; simp

/-- the objects of the new state -/
theorem stepAt_objs {c : Cfg} {s : State} {g : Nat} {o : Obj} (op : LOp) (h : s.objs[g]? = some o) (j : Nat) :
    (stepAt c s g op).1.objs[j]? =
      if j = g then some (stepLocal c (localOf s o) op).1.o else s.objs[j]? := by
  rw [stepAt_some op h]
  have hg : g < s.objs.length := (List.getElem?_eq_some_iff.1 h).1
  by_cases hj : j = g
  · subst hj; simp [hg]
  · simp [hj, List.getElem?_set_ne (Ne.symm hj)]

/-- the registry cells of the new state -/
theorem stepAt_cell {c : Cfg} {s : State} {g : Nat} {o : Obj} (op : LOp) (h : s.objs[g]? = some o)
    (hv : o.reg < s.regs.length) (p : Obj) :
    (stepAt c s g op).1.cell p =
      if p.reg = o.reg then (stepLocal c (localOf s o) op).1.r else s.cell p := by
  rw [stepAt_some op h]
  simp only [cell_eq]
  by_cases hp : p.reg = o.reg
  · simp [hp, hv]
  · simp [hp, List.getElem?_set_ne (Ne.symm hp)]

theorem stepAt_inv {s : State} (hs : HInv s) (g : Nat) (op : LOp) : HInv (stepAt Cfg.fixed s g op).1 := by
  cases h : s.objs[g]? with
  | none => rw [stepAt_none op h]; exact hs
  | some o =>
    have hv := hs.valid g o h
    have href : _ = o.reg ∧ _ = o.cls := stepLocal_ref Cfg.fixed (localOf s o) op
    have hlen : (stepAt Cfg.fixed s g op).1.regs.length = s.regs.length := by
      rw [stepAt_some op h]; simp
    refine ⟨?_, ?_, ?_⟩
    · intro j q hq
      rw [stepAt_objs op h] at hq
      rw [hlen]
      by_cases hj : j = g
      · simp [hj] at hq; subst hq; rw [href.1]; exact hv
      · simp [hj] at hq; exact hs.valid j q hq
    · intro j k q p hq hp hne
      rw [stepAt_objs op h] at hq hp
      by_cases hj : j = g
      · by_cases hk : k = g
        · exact absurd (hj.trans hk.symm) hne
        · simp [hj] at hq; simp [hk] at hp; subst hq
          rw [href.1]; exact hs.sep g k o p h hp (fun e => hk e.symm)
      · by_cases hk : k = g
        · simp [hj] at hq; simp [hk] at hp; subst hp
          rw [href.1]; exact hs.sep j g q o hq h hj
        · simp [hj] at hq; simp [hk] at hp
          exact hs.sep j k q p hq hp hne
    · intro j q hq
      rw [stepAt_objs op h] at hq
      by_cases hj : j = g
      · simp [hj] at hq; subst hq
        refine LInv.congr (w := (stepLocal Cfg.fixed (localOf s o) op).1) rfl ?_ (stepLocal_inv (hs.linv g o h) op)
        show (stepAt Cfg.fixed s g op).1.cell _ = _
        rw [stepAt_cell op h hv, if_pos href.1]
      · simp [hj] at hq
        refine LInv.congr (w := localOf s q) rfl ?_ (hs.linv j q hq)
        show (stepAt Cfg.fixed s g op).1.cell _ = _
        rw [stepAt_cell op h hv, if_neg (hs.sep j g q o hq h hj)]
        rfl

/-- **Frame** for a method call: every other object shows exactly what it showed before -/
theorem stepAt_frame {s : State} (hs : HInv s) (g : Nat) (op : LOp) (j : Nat) (hj : j ≠ g) :
    view Cfg.fixed (stepAt Cfg.fixed s g op).1 j = view Cfg.fixed s j := by
  cases h : s.objs[g]? with
  | none => rw [stepAt_none op h]
  | some o =>
    have hv := hs.valid g o h
    unfold view
    rw [stepAt_objs op h, if_neg hj]
    cases hq : s.objs[j]? with
    | none => rfl
    | some q =>
      simp only [Option.map_some, viewOf_fixed]
      congr 1
      have : (stepAt Cfg.fixed s g op).1.cell q = s.cell q := by
        rw [stepAt_cell op h hv, if_neg (hs.sep j g q o hq h hj)]
      simp [lview, localOf, this]

/-- what the object itself shows after the call is the local result -/
theorem stepAt_view_self {s : State} (hs : HInv s) {g : Nat} {o : Obj} (op : LOp) (h : s.objs[g]? = some o) :
    view Cfg.fixed (stepAt Cfg.fixed s g op).1 g = some (lview (stepLocal Cfg.fixed (localOf s o) op).1) := by
  have hv := hs.valid g o h
  have href : _ = o.reg ∧ _ = o.cls := stepLocal_ref Cfg.fixed (localOf s o) op
  unfold view
  rw [stepAt_objs op h, if_pos rfl]
  simp only [Option.map_some, viewOf_fixed]
  congr 1
  have : (stepAt Cfg.fixed s g op).1.cell (stepLocal Cfg.fixed (localOf s o) op).1.o
      = (stepLocal Cfg.fixed (localOf s o) op).1.r := by
    rw [stepAt_cell op h hv, if_pos href.1]
  simp only [lview, localOf] at this ⊢
  rw [this]

/-! ### object creation: `new`, `copy` -/

/-- append a new object pointing to a new cell -/
def alloc (s : State) (o : Obj) (r : Registry) : State :=
  { s with regs := s.regs ++ [r], objs := s.objs ++ [{ o with reg := s.regs.length }] }

theorem alloc_objs (s : State) (o : Obj) (r : Registry) (j : Nat) :
    (alloc s o r).objs[j]? =
      if j < s.objs.length then s.objs[j]? else if j = s.objs.length then some { o with reg := s.regs.length } else none := by
  unfold alloc
  by_cases h1 : j < s.objs.length
  · simp [h1, List.getElem?_append_left h1]
  · by_cases h2 : j = s.objs.length
    · subst h2; simp
    · have : s.objs.length + 1 ≤ j := by omega
      simp [h1, h2]
      omega

theorem alloc_cell_old (s : State) (o : Obj) (r : Registry) (p : Obj) (hp : p.reg < s.regs.length) :
    (alloc s o r).cell p = s.cell p := by
  simp only [cell_eq, alloc, List.getElem?_append_left hp]

theorem alloc_cell_new (s : State) (o : Obj) (r : Registry) (p : Obj) (hp : p.reg = s.regs.length) :
    (alloc s o r).cell p = r := by
  simp [cell_eq, alloc, hp]

theorem alloc_inv {s : State} (hs : HInv s) (o : Obj) (r : Registry)
    (hl : LInv ⟨o, r, s.classDoms⟩) : HInv (alloc s o r) := by
  have hlen : (alloc s o r).regs.length = s.regs.length + 1 := by simp [alloc]
  -- the three kinds of index
  have old : ∀ {j q}, j < s.objs.length → (alloc s o r).objs[j]? = some q → s.objs[j]? = some q := by
    intro j q h1 hq; rw [alloc_objs, if_pos h1] at hq; exact hq
  have new : ∀ {j q}, ¬ j < s.objs.length → (alloc s o r).objs[j]? = some q →
      j = s.objs.length ∧ q = { o with reg := s.regs.length } := by
    intro j q h1 hq
    rw [alloc_objs, if_neg h1] at hq
    by_cases h2 : j = s.objs.length
    · rw [if_pos h2] at hq; injection hq with hq; exact ⟨h2, hq.symm⟩
    · rw [if_neg h2] at hq; cases hq
  refine ⟨?_, ?_, ?_⟩
  · intro j q hq
    rw [hlen]
    by_cases h1 : j < s.objs.length
    · have := hs.valid j q (old h1 hq); omega
    · obtain ⟨_, rfl⟩ := new h1 hq; simp
  · intro j k q p hq hp hne
    by_cases hj : j < s.objs.length
    · have vq := hs.valid j q (old hj hq)
      by_cases hk : k < s.objs.length
      · exact hs.sep j k q p (old hj hq) (old hk hp) hne
      · obtain ⟨_, rfl⟩ := new hk hp; simp; omega
    · obtain ⟨hj2, rfl⟩ := new hj hq
      by_cases hk : k < s.objs.length
      · have vp := hs.valid k p (old hk hp); simp; omega
      · obtain ⟨hk2, _⟩ := new hk hp
        exact absurd (hj2.trans hk2.symm) hne
  · intro j q hq
    by_cases hj : j < s.objs.length
    · refine LInv.congr (w := localOf s q) rfl ?_ (hs.linv j q (old hj hq))
      exact alloc_cell_old s o r q (hs.valid j q (old hj hq))
    · obtain ⟨_, rfl⟩ := new hj hq
      refine LInv.congr' (w := ⟨o, r, s.classDoms⟩) rfl rfl rfl rfl ?_ hl
      exact alloc_cell_new s o r _ rfl

end C20
