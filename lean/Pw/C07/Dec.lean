import Pw.C07.Spec
import Pw.C07.Model
import Pw.C06.Dec
open Closure

/-! # C07 deciders against the definition (all conditioning sets, proved `MG.mSeparated`) -/
namespace C07
open MG C06

def adjacentB (G : MG) (a b : Nat) : Bool :=
  decide ((a, b) ∈ G.dir) || decide ((b, a) ∈ G.dir) || biB G a b || unB G a b

/-- `Maximal`, by enumeration of all subsets of the other nodes -/
def maximalDec (G : MG) : Bool :=
  G.nodes.all fun a => G.nodes.all fun b =>
    a == b || adjacentB G a b ||
      (subsets (G.nodes.filter fun v => v != a && v != b)).any fun Z => mSeparated G [a] [b] Z

def simpleDec (G : MG) : Bool :=
  G.nodes.all fun a => G.nodes.all fun b =>
    !(decide ((a, b) ∈ G.dir) && decide ((b, a) ∈ G.dir)) && !(decide ((a, b) ∈ G.dir) && biB G a b) &&
    !(decide ((a, b) ∈ G.dir) && unB G a b) && !(biB G a b && unB G a b)

/-- `Ancestral` with reflexive-ancestor sets from the verified closure: a <-> b, a -> c, c ∈ An(b) -/
def ancestralDec (G : MG) : Bool :=
  G.bi.all fun e =>
    !((G.children e.1).any fun c => decide (c ∈ G.anc [e.2])) &&
    !((G.children e.2).any fun c => decide (c ∈ G.anc [e.1]))

/-- the right-hand side of the property, decided from the definitions -/
def validMagDec (G : MG) : Bool :=
  G.un.isEmpty && simpleDec G && !hasCycle G && ancestralDec G && maximalDec G

end C07
