import Pw.Core.Graph
open Closure

/-! # C01 model: `m_separated` (pywhy_graphs/networkx/algorithms/causal/m_separation.py)

`expand` has one branch per push of the Python loop body; the two deques with their visited sets are
the worklist closure over states `(node, arrivedThroughArrowhead)`. -/
namespace MG
/-- BFS state: node and whether we arrived through an arrowhead (`true` = forward deque) -/
abbrev St := Nat × Bool

/-- successor states: mirrors the two branches of the Python loop body -/
def expand (G : MG) (Z anZ : List Nat) : St → List St
  | (v, false) =>   -- popped from backward deque
    if v ∈ Z then [] else
      (G.unbrs v).map (·, false) ++ (G.parents v).map (·, false) ++
      (G.children v).map (·, true) ++ (G.spouses v).map (·, true)
  | (v, true) =>    -- popped from forward deque
    (if v ∈ anZ then (G.parents v).map (·, false) ++ (G.spouses v).map (·, true) else []) ++
    (if v ∈ Z then [] else (G.unbrs v).map (·, false) ++ (G.children v).map (·, true))

def states (G : MG) : List St := G.nodes.map (·, false) ++ G.nodes.map (·, true)

def mSeparated (G : MG) (X Y Z : List Nat) : Bool :=
  let anZ := G.anc Z
  let reach := closure G.states (expand G Z anZ) (X.map (·, false))
  !(reach.any fun s => s.1 ∈ Y)

end MG
