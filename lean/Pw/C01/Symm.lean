import Pw.C01.Guard
open Closure

/-! # C01: swapping X and Y never changes the answer (path reversal) -/
namespace MG

/-- condition at a node with optional entry/exit marks: only inner nodes carry a condition -/
def condO (G : MG) (Z : List Nat) : Option Mark → Option Mark → Nat → Prop
  | some mi, some mo, v => condS G Z mi mo v
  | _, _, _ => True

theorem condS_symm {G : MG} {Z : List Nat} {mi mo : Mark} {v : Nat} :
    condS G Z mi mo v ↔ condS G Z mo mi v := by
  unfold condS
  cases mi <;> cases mo <;> simp

theorem condO_symm {G : MG} {Z : List Nat} {e x : Option Mark} {v : Nat} :
    condO G Z e x v ↔ condO G Z x e v := by
  cases e <;> cases x <;> simp [condO]
  exact condS_symm

theorem openS_cons {G : MG} {Z : List Nat} (e : Option Mark) (a : Nat) (h : Hop) (t : List Hop) :
    OpenS G Z e a (h :: t) ↔ condO G Z e (some h.mp) a ∧ OpenS G Z (some h.mn) h.nx t := by
  cases e <;> simp [OpenS, condO]

theorem openS_append {G : MG} {Z : List Nat} : ∀ (P1 P2 : List Hop) (e : Option Mark) (w : Nat),
    OpenS G Z e w (P1 ++ P2) ↔
      OpenS G Z e w P1 ∧ OpenS G Z (exitMark e P1) (endNode w P1) P2
  | [], P2, e, w => by cases e <;> simp [OpenS, exitMark, endNode]
  | h :: t, P2, e, w => by
    have ih := openS_append (G := G) (Z := Z) t P2 (some h.mn) h.nx
    rw [List.cons_append, openS_cons, openS_cons, ih, and_assoc]
    have : exitMark (some h.mn) t = exitMark e (h :: t) := by
      cases t <;> simp [exitMark, lastMn]
    rw [this]; rfl

/-- the path `a, hs` walked backwards (starting at `endNode a hs`) -/
def revHops : Nat → List Hop → List Hop
  | _, [] => []
  | a, h :: t => revHops h.nx t ++ [⟨h.mn, h.mp, a⟩]

theorem endNode_revHops : ∀ (hs : List Hop) (a : Nat), endNode (endNode a hs) (revHops a hs) = a
  | [], _ => rfl
  | h :: t, a => by simp [revHops, endNode, endNode_append]

theorem validW_revHops {G : MG} : ∀ (hs : List Hop) (a : Nat),
    ValidW G a hs → ValidW G (endNode a hs) (revHops a hs)
  | [], _, _ => trivial
  | h :: t, a, hv => by
    obtain ⟨hv1, hv2⟩ := hv
    simp only [revHops, endNode]
    rw [validW_append]
    refine ⟨validW_revHops t h.nx hv2, ?_⟩
    rw [endNode_revHops]
    exact ⟨hv1.symm, trivial⟩

theorem nodesOf_revHops : ∀ (hs : List Hop) (a : Nat),
    nodesOf (endNode a hs) (revHops a hs) = (nodesOf a hs).reverse
  | [], a => by simp [nodesOf, revHops, endNode]
  | h :: t, a => by
    have ih := nodesOf_revHops t h.nx
    simp only [nodesOf, revHops, endNode, List.map_append, List.map_cons, List.map_nil,
      List.reverse_cons] at ih ⊢
    rw [← List.cons_append, ih]

theorem openS_revHops {G : MG} {Z : List Nat} : ∀ (hs : List Hop) (a : Nat) (e x : Option Mark),
    (OpenS G Z e a hs ∧ condO G Z (exitMark e hs) x (endNode a hs)) ↔
      (OpenS G Z x (endNode a hs) (revHops a hs) ∧ condO G Z (exitMark x (revHops a hs)) e a)
  | [], a, e, x => by
    simp only [OpenS, exitMark, endNode, revHops, true_and]
    exact condO_symm
  | h :: t, a, e, x => by
    have ih := openS_revHops (G := G) (Z := Z) t h.nx (some h.mn) x
    have hx : exitMark e (h :: t) = exitMark (some h.mn) t := by
      cases t <;> simp [exitMark, lastMn]
    rw [openS_cons, hx]
    simp only [revHops, endNode]
    rw [openS_append, exitMark_snoc, endNode_revHops, and_assoc, ih]
    simp only [openS_cons, OpenS, and_true]
    constructor
    · rintro ⟨h1, h2, h3⟩; exact ⟨⟨h2, h3⟩, condO_symm.mp h1⟩
    · rintro ⟨⟨h2, h3⟩, h1⟩; exact ⟨condO_symm.mp h1, h2, h3⟩

theorem nodup_reverse' {l : List Nat} (h : l.Nodup) : l.reverse.Nodup := by
  unfold List.Nodup at *
  rw [List.pairwise_reverse]
  exact h.imp (fun hab => Ne.symm hab)

theorem MConnPath.symm {G : MG} {Z : List Nat} {x y : Nat} (h : MConnPath G Z x y) :
    MConnPath G Z y x := by
  obtain ⟨hs, hv, hend, hn, ho⟩ := h
  refine ⟨revHops x hs, ?_, ?_, ?_, ?_⟩
  · rw [← hend]; exact validW_revHops hs x hv
  · rw [← hend]; exact endNode_revHops hs x
  · rw [← hend, nodesOf_revHops]; exact nodup_reverse' hn
  · have := (openS_revHops (G := G) (Z := Z) hs x none none).mp ⟨ho, by cases hs <;> simp [condO, exitMark]⟩
    rw [← hend]; exact this.1

/-- the specification is symmetric in X and Y -/
theorem MSep.symm {G : MG} {X Y Z : List Nat} (h : MSep G X Y Z) : MSep G Y X Z :=
  fun y hy x hx hp => h x hx y hy hp.symm

/-- **C01 (symmetry clause)** for the model: on the property's domain swapping X and Y never changes
    the answer of `m_separated`. -/
theorem mSeparated_symm (G : MG) (hwf : G.WF) (hb : NoUndirAtHead G) (hsl : NoSelfLoop G)
    (X Y Z : List Nat) (hX : ∀ x ∈ X, x ∈ G.nodes) (hY : ∀ y ∈ Y, y ∈ G.nodes)
    (hZ : ∀ z ∈ Z, z ∈ G.nodes) (hXZ : ∀ x ∈ X, x ∉ Z) (hYZ : ∀ y ∈ Y, y ∉ Z) :
    mSeparated G X Y Z = mSeparated G Y X Z := by
  have h1 := mSeparated_iff_MSep G hwf hb hsl X Y Z hX hZ hXZ
  have h2 := mSeparated_iff_MSep G hwf hb hsl Y X Z hY hZ hYZ
  cases ha : mSeparated G X Y Z <;> cases hb' : mSeparated G Y X Z <;> simp_all
  · exact h1 (MSep.symm h2)
  · exact h2 (MSep.symm h1)

end MG
