import Pw.C06.Mag
import Pw.C07.Spec
import Pw.T5.Main
open Closure

/-! # C06, first clause of `dag_to_mag`, unconditional

"x and y are adjacent iff no subset of the other remaining nodes d-separates them in D given S":
`dagToMag_structure` (adjacent ⇔ inducing path) composed with T5a `T5.inducing_iff_inseparable`
(inducing path ⇔ inseparable; proved on /verif main from the moralisation criterion T2). -/
namespace C06
open MG

variable {G : MG} {L S : List Nat} {M : MG}

theorem adjSpec_symm {a b : Nat} (h : AdjSpec G L S a b) : AdjSpec G L S b a := by
  obtain ⟨h1, h2, h3, h4, h5, h6, h7, h8⟩ := h
  exact ⟨h2, h1, Ne.symm h3, h4.symm, h7, h8, h5, h6⟩

/-- adjacency in the result = the relation collected by the first loop -/
theorem magStructure_adjacent (hs : MagStructure G L S M) (a b : Nat) :
    C07.Adjacent M a b ↔ AdjSpec G L S a b := by
  unfold C07.Adjacent C07.Dir C07.Bi C07.Un
  constructor
  · rintro (h | h | h | h)
    · obtain ⟨h1, h2, h3, h4, h5, h6, h7, h8, _⟩ := (hs.dir a b).mp h
      exact ⟨h1, h2, h3, h4, h5, h6, h7, h8⟩
    · obtain ⟨h1, h2, h3, h4, h5, h6, h7, h8, _⟩ := (hs.dir b a).mp h
      exact adjSpec_symm ⟨h1, h2, h3, h4, h5, h6, h7, h8⟩
    · obtain ⟨h1, h2, h3, h4, h5, h6, h7, h8, _⟩ := (hs.bi a b).mp h
      exact ⟨h1, h2, h3, h4, h5, h6, h7, h8⟩
    · obtain ⟨h1, h2, h3, h4, h5, h6, h7, h8, _⟩ := (hs.un a b).mp h
      exact ⟨h1, h2, h3, h4, h5, h6, h7, h8⟩
  · intro h
    have h' := adjSpec_symm h
    obtain ⟨h1, h2, h3, h4, h5, h6, h7, h8⟩ := h
    obtain ⟨g1, g2, g3, g4, g5, g6, g7, g8⟩ := h'
    by_cases t1 : TailAt G S b a <;> by_cases t2 : TailAt G S a b
    · exact Or.inr (Or.inr (Or.inr ((hs.un a b).mpr ⟨h1, h2, h3, h4, h5, h6, h7, h8, t1, t2⟩)))
    · exact Or.inl ((hs.dir a b).mpr ⟨h1, h2, h3, h4, h5, h6, h7, h8, t1, t2⟩)
    · exact Or.inr (Or.inl ((hs.dir b a).mpr ⟨g1, g2, g3, g4, g5, g6, g7, g8, t2, t1⟩))
    · exact Or.inr (Or.inr (Or.inl ((hs.bi a b).mpr ⟨h1, h2, h3, h4, h5, h6, h7, h8, t1, t2⟩)))

/-- no subset `Z` of the other remaining nodes separates `a` and `b` in `G` given `Z ∪ S` -/
def Inseparable (G : MG) (L S : List Nat) (a b : Nat) : Prop :=
  ∀ Z : List Nat, (∀ z ∈ Z, z ∈ G.nodes ∧ z ∉ L ∧ z ∉ S ∧ z ≠ a ∧ z ≠ b) → ¬ MSep G [a] [b] (Z ++ S)

theorem inseparable_symm {a b : Nat} (h : Inseparable G L S a b) : Inseparable G L S b a := by
  intro Z hZ hsep
  exact h Z (fun z hz => ⟨(hZ z hz).1, (hZ z hz).2.1, (hZ z hz).2.2.1, (hZ z hz).2.2.2.2, (hZ z hz).2.2.2.1⟩)
    hsep.symm

/-- **C06, dag_to_mag, adjacency clause (unconditional).**  For every graph with directed (and
    bidirected) edges only, without self loops and 2-cycles – in particular every DAG –, disjoint
    `L`, `S ⊆ V`, and remaining nodes `a ≠ b`: `a` and `b` are adjacent in the model's result iff no subset
    of the other remaining nodes m-separates them given `S`. -/
theorem dagToMag_adjacent_iff_inseparable (hwf : G.WF) (hun : G.un = []) (hcirc : G.circ = [])
    (no2 : ∀ a b, (a, b) ∈ G.dir → (b, a) ∉ G.dir) (hsl : NoSelfLoop G)
    (hSn : ∀ s ∈ S, s ∈ G.nodes) (hLS : ∀ v, v ∈ L → v ∉ S)
    (hM : dagToMag G L S = .ok M) {a b : Nat} (ha : a ∈ M.nodes) (hb : b ∈ M.nodes) (hab : a ≠ b) :
    C07.Adjacent M a b ↔ Inseparable G L S a b := by
  have hs := dagToMag_structure (L := L) (S := S) hwf hun hcirc no2 hM
  obtain ⟨haG, haL, haS⟩ := (hs.nodes a).mp ha
  obtain ⟨hbG, hbL, hbS⟩ := (hs.nodes b).mp hb
  have e1 := T5.inducing_iff_inseparable hwf hun hsl (L := L) (S := S) hab haG hbG haS hbS hSn hLS
  have e2 := T5.inducing_iff_inseparable hwf hun hsl (L := L) (S := S) (Ne.symm hab) hbG haG hbS haS hSn hLS
  rw [magStructure_adjacent hs]
  constructor
  · rintro ⟨_, _, _, (h | h), _⟩
    · exact e1.mp h
    · exact inseparable_symm (e2.mp h)
  · intro h
    exact ⟨haG, hbG, hab, Or.inl (e1.mpr h), haL, haS, hbL, hbS⟩

/-- inducing paths are symmetric (via T5a and the symmetry of m-separation) -/
theorem hasInducingPath_symm (hwf : G.WF) (hun : G.un = []) (hsl : NoSelfLoop G)
    (hSn : ∀ s ∈ S, s ∈ G.nodes) (hLS : ∀ v, v ∈ L → v ∉ S) {a b : Nat} (hab : a ≠ b)
    (ha : a ∈ G.nodes) (hb : b ∈ G.nodes) (haS : a ∉ S) (hbS : b ∉ S)
    (h : HasInducingPath G L S a b) : HasInducingPath G L S b a :=
  (T5.inducing_iff_inseparable hwf hun hsl (L := L) (S := S) (Ne.symm hab) hb ha hbS haS hSn hLS).mpr
    (inseparable_symm ((T5.inducing_iff_inseparable hwf hun hsl (L := L) (S := S) hab ha hb haS hbS hSn hLS).mp h))

/-- non-vacuity -/
example : NoSelfLoop exG := by
  intro a ma mb h
  rcases h with ⟨_, _, h⟩ | ⟨_, _, h⟩ | ⟨_, _, h⟩ | ⟨_, _, h⟩ <;> simp [exG] at h <;> omega

end C06
