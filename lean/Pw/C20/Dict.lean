import Pw.C20.Basic

/-!
C20 — the list encoding of the two registries is a faithful Python dict in every model (repaired
code and every defect model): keys are never duplicated, for all histories.  (`d[k] = v` on a
present key replaces, on an absent key appends; `del d[k]` removes.)
-/
namespace C20

def RegND (r : Registry) : Prop := (dKeys r.fs).Nodup ∧ (dKeys r.ss).Nodup

theorem nodup_dKeys_dSet {d : List (Nat × α)} (k : Nat) (v : α) (h : (dKeys d).Nodup) : (dKeys (dSet d k v)).Nodup := by
  unfold dSet
  split
  · have : dKeys (d.map fun p => if p.1 = k then (k, v) else p) = dKeys d := by
      unfold dKeys
      rw [List.map_map]
      apply List.map_congr_left
      intro p _
      by_cases hp : p.1 = k <;> simp [hp]
    rw [this]; exact h
  · rename_i hk
    have : dKeys (d ++ [(k, v)]) = dKeys d ++ [k] := by simp [dKeys]
    rw [this, List.nodup_append]
    refine ⟨h, by simp, ?_⟩
    intro a ha b hb
    simp at hb; subst hb
    exact fun e => hk (e ▸ ha)

theorem nodup_dKeys_dErase {d : List (Nat × α)} (k : Nat) (h : (dKeys d).Nodup) : (dKeys (dErase d k)).Nodup := by
  unfold dKeys dErase at *
  exact h.sublist (List.filter_sublist.map _)

theorem RegND.empty : RegND {} := by simp [RegND, dKeys]

theorem addF_nd (c : Cfg) (w : Local) (ts : List Nat) (u : Bool) (d : Option (List Nat)) (h : RegND w.r) :
    RegND (addF c w ts u d).1.r := by
  unfold addF
  split
  · exact h
  · split
    · exact h
    · split
      · exact h
      · exact ⟨nodup_dKeys_dSet _ _ h.1, h.2⟩

theorem addFs_nd (c : Cfg) : ∀ (tss : List (List Nat)) (w : Local), RegND w.r → RegND (addFs c w tss).1.r := by
  intro tss
  induction tss with
  | nil => intro w h; exact h
  | cons ts rest ih =>
    intro w h
    unfold addFs
    have h1 := addF_nd c w ts true none h
    rcases hs : addF c w ts true none with ⟨w', st⟩
    rw [hs] at h1
    cases st with
    | ok => exact ih w' h1
    | err => exact h1

theorem dropNode_nd (w : Local) (n : Node) (h : RegND w.r) : RegND (dropNode w n).1.r := by
  unfold dropNode dropOk; split <;> exact h

theorem stepLocal_nd (c : Cfg) (w : Local) (op : LOp) (h : RegND w.r) : RegND (stepLocal c w op).1.r := by
  cases op with
  | addF ts u d => exact addF_nd c w ts u d h
  | addFs tss => exact addFs_nd c tss w h
  | addS d chg =>
    simp only [stepLocal, addS]
    split
    · exact h
    · simp only [addSok]
      by_cases hc : c.classDoms = true <;> simp only [hc, if_true, if_false] <;>
        exact ⟨h.1, nodup_dKeys_dSet _ _ h.2⟩
  | rmF k =>
    simp only [stepLocal, rmF]
    apply dropNode_nd
    show RegND (if k ∈ dKeys w.r.fs then { w.r with fs := dErase w.r.fs k } else w.r)
    split
    · exact ⟨nodup_dKeys_dErase _ h.1, h.2⟩
    · exact h
  | rmS k =>
    simp only [stepLocal, rmS]
    apply dropNode_nd
    show RegND (if (c.keepS && w.o.cls == Cls.ag) = true then w.r
      else if k ∈ dKeys w.r.ss then { w.r with ss := dErase w.r.ss k } else w.r)
    split
    · exact h
    · split
      · exact ⟨h.1, nodup_dKeys_dErase _ h.2⟩
      · exact h
  | node i => exact h
  | edge u v => exact h
  | rawS k d =>
    simp only [stepLocal, rawS]
    split
    · exact h
    · exact ⟨h.1, nodup_dKeys_dSet _ _ h.2⟩

def HeapND (s : State) : Prop := ∀ r ∈ s.regs, RegND r

theorem cell_nd {s : State} (h : HeapND s) (o : Obj) : RegND (s.cell o) := by
  unfold State.cell
  rw [List.getD_eq_getElem?_getD]
  cases hr : s.regs[o.reg]? with
  | none => exact RegND.empty
  | some r => exact h r (List.mem_of_getElem? hr)

theorem stepAt_nd (c : Cfg) {s : State} (h : HeapND s) (g : Nat) (op : LOp) : HeapND (stepAt c s g op).1 := by
  unfold stepAt
  cases ho : s.objs[g]? with
  | none => exact h
  | some o =>
    intro r hr
    rcases List.mem_or_eq_of_mem_set hr with h1 | h1
    · exact h r h1
    · rw [h1]; exact stepLocal_nd c _ op (cell_nd h o)

theorem stepCopy_nd (c : Cfg) {s : State} (h : HeapND s) (g : Nat) : HeapND (stepCopy c s g).1 := by
  unfold stepCopy
  cases ho : s.objs[g]? with
  | none => exact h
  | some o =>
    by_cases hc : c.sharedCopy = true
    · simp only [hc, if_true]; exact h
    · simp only [hc]
      intro r hr
      rcases List.mem_append.1 hr with h1 | h1
      · exact h r h1
      · simp at h1; rw [h1]; exact cell_nd h o

theorem allSLoop_nd (c : Cfg) (g : Nat) : ∀ (ds : List (Nat × Nat)) (s : State) (k : Nat), HeapND s →
    HeapND (allSLoop c s g ds k).1 := by
  intro ds
  induction ds with
  | nil => intro s k h; exact h
  | cons d rest ih =>
    intro s k h
    unfold allSLoop
    have h1 := stepAt_nd c h g (.rawS k d)
    rcases hs : stepAt c s g (.rawS k d) with ⟨s', st⟩
    rw [hs] at h1
    cases st with
    | ok => exact ih s' (k + 1) h1
    | err => exact h1

theorem step_nd (c : Cfg) {s : State} (h : HeapND s) (op : Op) : HeapND (step c s op).1 := by
  cases op with
  | new cls =>
    intro r hr
    rcases List.mem_append.1 hr with h1 | h1
    · exact h r h1
    · simp at h1; rw [h1]; exact RegND.empty
  | copy g => exact stepCopy_nd c h g
  | «at» g lop => exact stepAt_nd c h g lop
  | allS g n =>
    simp only [step]
    have h1 := stepCopy_nd c h g
    rcases hs : stepCopy c s g with ⟨s1, st⟩
    rw [hs] at h1
    cases st with
    | err => exact h1
    | ok =>
      have h2 := allSLoop_nd c s.objs.length (domPairs n) s1 0 h1
      rcases hl : allSLoop c s1 s.objs.length (domPairs n) 0 with ⟨s2, st2⟩
      rw [hl] at h2
      show HeapND (match allSLoop c s1 s.objs.length (domPairs n) 0 with
        | (s2, .ok) => (s2, Status.ok)
        | (s2, .err) => ({ s2 with objs := s2.objs.take s.objs.length }, Status.err)).1
      rw [hl]
      cases st2 with
      | ok => exact h2
      | err => exact h2

/-- in every model (any combination of the defect flags) and after every history, every registry
cell of the heap has pairwise distinct keys: the association lists behave as Python dicts -/
theorem dict_wellformed (c : Cfg) : ∀ (ops : List Op) (s : State), HeapND s → HeapND (run c s ops) := by
  intro ops
  induction ops with
  | nil => intro s h; exact h
  | cons op rest ih => intro s h; exact ih _ (step_nd c h op)

theorem dict_wellformed_init (c : Cfg) (ops : List Op) : HeapND (run c init ops) :=
  dict_wellformed c ops init (by intro r hr; simp [init] at hr)

end C20
