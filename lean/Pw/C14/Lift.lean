import Pw.C14.Pair

/-! # C14 — lifting from pairs to whole graphs / matrices

The importers fold `add_edge` calls over index pairs; every call looks at and changes the layer
bits of one unordered pair only (`applyOpsG_spec`).  `pairFold_spec` is the generic statement "pairs
are independent": if every visit of a pair, from every state that pair can be in, succeeds and
moves the pair to the state the visit flags prescribe, then the whole fold succeeds and every pair
ends in the state prescribed by the set of visits that occur in the list — no assumption on the
order of the list. -/
namespace C14
set_option linter.unusedSimpArgs false

theorem bits_swap (g : MG) (u v : Nat) : bits g v u = (bits g u v).swap := by
  simp [bits, PB.swap, Bool.or_comm]

theorem bits_insertEdge_same (g : MG) (u v : Nat) (t : ET) (h : u ≠ v) :
    bits (insertEdge g u v t) u v = (bits g u v).set t := by
  have h' : v ≠ u := fun e => h e.symm
  cases t <;> simp [bits, insertEdge, PB.set, h, h']

theorem bits_insertEdge_other (g : MG) (u v a b : Nat) (t : ET)
    (h1 : ¬(a = u ∧ b = v)) (h2 : ¬(a = v ∧ b = u)) :
    bits (insertEdge g u v t) a b = bits g a b := by
  have h1' : ¬(b = v ∧ a = u) := fun e => h1 ⟨e.2, e.1⟩
  have h2' : ¬(b = u ∧ a = v) := fun e => h2 ⟨e.2, e.1⟩
  cases t <;> simp [bits, insertEdge, h1, h2, h1', h2', -not_and]

theorem insertEdge_nodes (g : MG) (u v : Nat) (t : ET) : (insertEdge g u v t).nodes = g.nodes := by
  cases t <;> rfl

theorem addEdge_some {c : Cls} {p q : PB} {t : ET} (h : addEdge c p t = some q) : q = p.set t := by
  unfold addEdge at h
  split at h
  · cases h
  · split at h <;> (try split at h) <;> (try split at h) <;> cases h <;> rfl

theorem addEdgeG_spec (c : Cls) (g : MG) (u v : Nat) (t : ET) (huv : u ≠ v) :
    match addEdge c (bits g u v) t with
    | none => addEdgeG c g u v t = none
    | some q => ∃ h, addEdgeG c g u v t = some h ∧ h.nodes = g.nodes ∧ bits h u v = q ∧
        ∀ a b, ¬(a = u ∧ b = v) → ¬(a = v ∧ b = u) → bits h a b = bits g a b := by
  cases hq : addEdge c (bits g u v) t with
  | none => simp [addEdgeG, hq]
  | some q =>
    refine ⟨insertEdge g u v t, by simp [addEdgeG, hq], insertEdge_nodes g u v t, ?_, ?_⟩
    · rw [bits_insertEdge_same g u v t huv, addEdge_some hq]
    · intro a b h1 h2; exact bits_insertEdge_other g u v a b t h1 h2

theorem applyOpG_spec (c : Cls) (g : MG) (u v : Nat) (o : Op) (huv : u ≠ v) :
    match applyOp c (bits g u v) o with
    | none => applyOpG c u v g o = none
    | some q => ∃ h, applyOpG c u v g o = some h ∧ h.nodes = g.nodes ∧ bits h u v = q ∧
        ∀ a b, ¬(a = u ∧ b = v) → ¬(a = v ∧ b = u) → bits h a b = bits g a b := by
  unfold applyOp applyOpG
  by_cases hr : o.rev = true
  · simp only [hr, if_true]
    have := addEdgeG_spec c g v u o.t (fun e => huv e.symm)
    rw [bits_swap g u v] at this
    cases hq : addEdge c (bits g u v).swap o.t with
    | none => rw [hq] at this; simpa using this
    | some q =>
      rw [hq] at this
      obtain ⟨h, h1, h2, h3, h4⟩ := this
      refine ⟨h, h1, h2, ?_, ?_⟩
      · rw [bits_swap h v u, h3]
      · intro a b hab hba; exact h4 a b hba hab
  · simp only [hr]
    exact addEdgeG_spec c g u v o.t huv

/-- the `add_edge` calls for the pair `(u,v)`: they succeed on the whole graph iff they succeed on
    the bits of that pair, change exactly that pair, and leave the node set alone -/
theorem applyOpsG_spec (c : Cls) (u v : Nat) (huv : u ≠ v) (ops : List Op) (g : MG) :
    match applyOps c (bits g u v) ops with
    | none => applyOpsG c u v g ops = none
    | some q => ∃ h, applyOpsG c u v g ops = some h ∧ h.nodes = g.nodes ∧ bits h u v = q ∧
        ∀ a b, ¬(a = u ∧ b = v) → ¬(a = v ∧ b = u) → bits h a b = bits g a b := by
  induction ops generalizing g with
  | nil => exact ⟨g, rfl, rfl, rfl, fun _ _ _ _ => rfl⟩
  | cons o os ih =>
    have h1 := applyOpG_spec c g u v o huv
    simp only [applyOps, applyOpsG]
    cases hq : applyOp c (bits g u v) o with
    | none => rw [hq] at h1; simp [h1]
    | some q =>
      rw [hq] at h1
      obtain ⟨h, e1, e2, e3, e4⟩ := h1
      have h2 := ih h
      rw [e3] at h2
      simp only [e1, Option.bind_some]
      cases hq2 : applyOps c q os with
      | none => rw [hq2] at h2; exact h2
      | some q2 =>
        rw [hq2] at h2
        obtain ⟨h', f1, f2, f3, f4⟩ := h2
        exact ⟨h', f1, f2.trans e2, f3, fun a b hab hba => (f4 a b hab hba).trans (e4 a b hab hba)⟩

/-! ## pairs are independent -/

/-- one loop iteration of an importer: skip the diagonal, otherwise perform the `add_edge` calls
    `E u v` for the pair -/
def pairStep (c : Cls) (E : Nat → Nat → Option (List Op)) (g : Option MG) (uv : Nat × Nat) : Option MG :=
  g.bind fun g => if uv.1 == uv.2 then some g else (E uv.1 uv.2).bind fun ops => applyOpsG c uv.1 uv.2 g ops

/-- state of all pairs after the visits in `done` -/
def PairInv (F : Nat → Nat → Bool → Bool → PB) (g0 : MG) (done : List (Nat × Nat)) (g : MG) : Prop :=
  g.nodes = g0.nodes ∧
  (∀ a b, a ≠ b → bits g a b = F a b (decide ((a, b) ∈ done)) (decide ((b, a) ∈ done))) ∧
  ∀ a, bits g a a = bits g0 a a

theorem pairStep_inv (c : Cls) (E : Nat → Nat → Option (List Op)) (F : Nat → Nat → Bool → Bool → PB) (g0 : MG)
    (hsw : ∀ a b s t, (F a b s t).swap = F b a t s)
    (u v : Nat)
    (hvisit : ∀ s t, u ≠ v → ∃ ops, E u v = some ops ∧ applyOps c (F u v s t) ops = some (F u v true t))
    (done : List (Nat × Nat)) (g : MG) (hinv : PairInv F g0 done g) :
    ∃ g', pairStep c E (some g) (u, v) = some g' ∧ PairInv F g0 (done ++ [(u, v)]) g' := by
  obtain ⟨hn, hb, hd⟩ := hinv
  by_cases huv : u = v
  · subst huv
    refine ⟨g, by simp [pairStep], hn, ?_, hd⟩
    intro a b hab
    rw [hb a b hab]
    have h1 : ¬(a = u ∧ b = u) := fun e => hab (e.1.trans e.2.symm)
    have h2 : ¬(b = u ∧ a = u) := fun e => hab (e.2.trans e.1.symm)
    simp [List.mem_append, h1, h2]
  · obtain ⟨ops, hE, hops⟩ := hvisit (decide ((u, v) ∈ done)) (decide ((v, u) ∈ done)) huv
    have hspec := applyOpsG_spec c u v huv ops g
    rw [hb u v huv, hops] at hspec
    obtain ⟨h, e1, e2, e3, e4⟩ := hspec
    refine ⟨h, ?_, e2.trans hn, ?_, ?_⟩
    · simp [pairStep, huv, hE, e1]
    · intro a b hab
      by_cases c1 : a = u ∧ b = v
      · obtain ⟨rfl, rfl⟩ := c1
        rw [e3]
        have : ¬(b = a ∧ a = b) := fun e => huv e.2
        simp [List.mem_append, this]
      · by_cases c2 : a = v ∧ b = u
        · obtain ⟨rfl, rfl⟩ := c2
          rw [bits_swap h b a, e3, hsw]
          have : ¬(a = b ∧ b = a) := fun e => huv e.2
          simp [List.mem_append, this]
        · rw [e4 a b c1 c2, hb a b hab]
          have c2' : ¬(b = u ∧ a = v) := fun e => c2 ⟨e.2, e.1⟩
          simp [List.mem_append, c1, c2']
    · intro a
      rw [e4 a a (fun e => huv (e.1.symm.trans e.2)) (fun e => huv (e.2.symm.trans e.1)), hd a]

/-- **pairs are independent**: generic correctness of an importer loop over any list of index pairs -/
theorem pairFold_spec (c : Cls) (E : Nat → Nat → Option (List Op)) (F : Nat → Nat → Bool → Bool → PB)
    (L : List (Nat × Nat)) (g0 : MG)
    (hsw : ∀ a b s t, (F a b s t).swap = F b a t s)
    (hvisit : ∀ a b s t, (a, b) ∈ L → a ≠ b →
      ∃ ops, E a b = some ops ∧ applyOps c (F a b s t) ops = some (F a b true t))
    (h0 : ∀ a b, a ≠ b → bits g0 a b = F a b false false) :
    ∃ g, L.foldl (pairStep c E) (some g0) = some g ∧ PairInv F g0 L g := by
  have aux : ∀ (rest done : List (Nat × Nat)) (g : MG), (∀ x ∈ rest, x ∈ L) → PairInv F g0 done g →
      ∃ g', rest.foldl (pairStep c E) (some g) = some g' ∧ PairInv F g0 (done ++ rest) g' := by
    intro rest
    induction rest with
    | nil => intro done g _ hinv; exact ⟨g, rfl, by simpa using hinv⟩
    | cons x rest ih =>
      intro done g hmem hinv
      obtain ⟨u, v⟩ := x
      have hx : (u, v) ∈ L := hmem _ (List.mem_cons_self)
      obtain ⟨g1, hg1, hinv1⟩ := pairStep_inv c E F g0 hsw u v (fun s t huv => hvisit u v s t hx huv) done g hinv
      obtain ⟨g2, hg2, hinv2⟩ := ih (done ++ [(u, v)]) g1 (fun y hy => hmem y (List.mem_cons_of_mem _ hy)) hinv1
      refine ⟨g2, ?_, ?_⟩
      · rw [List.foldl_cons, hg1, hg2]
      · simpa [List.append_assoc] using hinv2
  have := aux L [] g0 (fun _ h => h) ⟨rfl, by simpa using h0, fun _ => rfl⟩
  simpa using this

end C14
