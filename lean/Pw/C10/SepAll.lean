import Pw.C01.Walk
open Closure

/-! # C10: bounded decider of the separation sentence (what `c10sepall` runs)

`sepAllBad G R` enumerates every triple of pairwise disjoint sublists (X, Y, Z) of `G.nodes` with
X, Y non-empty and returns the first on which the C01 model answers differently on `R` and `G`.
The theorems in `SepAllProofs.lean` show that `none` means agreement on *all* disjoint X, Y, Z ⊆ V
(in any order, with repetitions). -/
namespace C10

/-- all (X,Y,Z), pairwise disjoint, as sublists of the given node list -/
def queries : List Nat → List (List Nat × List Nat × List Nat)
  | [] => [([], [], [])]
  | v :: vs =>
    (queries vs).flatMap fun (X, Y, Z) => [(X, Y, Z), (v :: X, Y, Z), (X, v :: Y, Z), (X, Y, v :: Z)]

def properQueries (nodes : List Nat) : List (List Nat × List Nat × List Nat) :=
  (queries nodes).filter fun q => !q.1.isEmpty && !q.2.1.isEmpty

def sepAllBad (G R : MG) : Option (List Nat × List Nat × List Nat) :=
  (properQueries G.nodes).find? fun q =>
    MG.mSeparated G q.1 q.2.1 q.2.2 != MG.mSeparated R q.1 q.2.1 q.2.2

end C10
